import sys,os,random,json,shutil
sys.path.insert(0,'/verif/lib')
import wsgen, runner, common, cli, cliprops
seed=int(sys.argv[1]); n=int(sys.argv[2])
r = random.Random(seed * 7919 + 5)
cfg = wsgen.GenConfig(p_fail=0.75, max_patches=r.choice([2, 4, 6, 8]))
ws=wsgen.generate(seed,cfg)
args=sys.argv[3:]
outs={}
for i in range(n):
    root='/dev/shm/t/ws2'
    shutil.rmtree(root,ignore_errors=True)
    wsgen.materialize(ws,root)
    rr=runner.run_rq(cliprops.rq(), root, args)
    key=(rr.rc, tuple(runner.read_applied(root) or []), rr.err[-800:])
    outs[key]=outs.get(key,0)+1
for k,v in outs.items(): print(v,k[0],k[1]); print(k[2].decode())
