import sys, os, collections, json
sys.path.insert(0,'/verif/lib')
import common, cliprops, cli, multiprocessing
b = cliprops.rq()
fn = getattr(cliprops, sys.argv[1])
n = int(sys.argv[2]); base=int(sys.argv[3]) if len(sys.argv)>3 else 1000003
groups = collections.defaultdict(list)
with multiprocessing.Pool(16) as pool:
    for seed,res in zip(range(n), pool.imap(cli._call, [(fn,(base+i,b)) for i in range(n)], chunksize=4)):
        if 'error' in res: print(res['error']); continue
        for v in res['violations']:
            groups[json.dumps(v['sig'],sort_keys=True)].append((base+seed, v['detail']))
for k,v in sorted(groups.items(), key=lambda x:-len(x[1])):
    print(len(v), k)
    for seed,d in v[:int(os.environ.get('SHOW','2'))]:
        print('    seed',seed, d[:int(os.environ.get('LEN','700'))].replace('\n','\n      '))
