import sys,os,collections,json
sys.path.insert(0,'/verif/lib')
import cliprops, cli, multiprocessing
fn=getattr(cliprops, sys.argv[1]); seed=int(sys.argv[2]); n=int(sys.argv[3])
b=cliprops.rq()
c=collections.Counter()
ex={}
with multiprocessing.Pool(8) as pool:
    for res in pool.imap(cli._call, [(fn,(seed,b))]*n):
        if 'error' in res: print(res['error']); break
        k=json.dumps([v['sig'] for v in res['violations']],sort_keys=True)
        c[k]+=1
        if res['violations']: ex[k]=res['violations'][0]
for k,v in c.items():
    print(v,k)
    if k in ex: print('   ',ex[k]['detail'][:1500]); print('   ', ex[k]['payload'].get('argv'))
