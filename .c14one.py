import sys,os,random,json,shutil
sys.path.insert(0,'/verif/lib')
import wsgen, runner, common, cli, cliprops
seed=int(sys.argv[1])
# re-create the workspace exactly as c14_worker does for the page-multiple shape
r = random.Random(seed * 982451653 + 14)
shape = r.choice(["plain", "plain", "plain", "empty-source", "empty-patch", "empty-series", "all-applied", "goal-applied", "symlinked-source", "symlinked-patch","many-files-low-fd-limit", "page-multiple-source"])
print(shape)
cfg = wsgen.GenConfig(p_fail=0.5, max_patches=r.choice([1, 3, 6]))
ws = wsgen.generate(seed, cfg)
cfg2 = wsgen.GenConfig(p_fail=0.3, max_patches=r.choice([1, 3]), max_files=3)
cfg2.kinds = ["modify"] * 6 + ["delete", "truncate", "chmod"]
ws = wsgen.generate(seed, cfg2)
t0 = {}
for pth, (data, mode) in ws.trees[0].items():
    page = r.choice([4096, 8192])
    padlen = (-(len(data) + 1)) % page
    pad = b"p" * padlen + b"\n"
    if not data.endswith(b"\n") and data:
        data = data + b"\n"
        padlen = (-(len(data) + 1)) % page
        pad = b"p" * padlen + b"\n"
    t0[pth] = (data + pad, mode)
ws.trees[0] = t0
root='/dev/shm/t/c14ws'
shutil.rmtree(root,ignore_errors=True)
wsgen.materialize(ws,root)
print(json.dumps(ws.describe())[:1500])
for args in (['-q','--threads','1','push','-a'],['--threads','1','push','-a'],['--threads','1','--mmap','push','-a'],['-q','--threads','1','--mmap','push','-a'],['-q','--threads','4','--mmap','push','-a']):
    w='/dev/shm/t/c14w'; shutil.rmtree(w,ignore_errors=True); shutil.copytree(root,w)
    rr=runner.run_rq(cliprops.rq(), w, args)
    print(args, rr.rc, rr.err.decode()[-300:].replace('\n',' | '))
