/* LD_PRELOAD shim: counts the output operations of a process (all threads, one
 * global counter) under FAULTSHIM_ROOT, logs them to FAULTSHIM_LOG and makes the
 * FAULTSHIM_FAIL_AT-th one fail with FAULTSHIM_ERRNO.
 *
 * Output operations: open/open64/openat/creat with O_WRONLY|O_RDWR|O_CREAT|O_TRUNC|O_APPEND,
 * write/writev/pwrite64 on descriptors obtained from such opens, unlink(at), mkdir(at),
 * rmdir, chmod, fchmod (on such descriptors), rename(at), ftruncate, link, symlink.
 *
 * FAULTSHIM_SHORT=1: when the chosen operation is a write of >= 2 bytes it becomes a SHORT write (half of the bytes are
 * written and that count is returned, as the kernel does when a limit is hit mid-call) and every later write on the
 * same descriptor fails with FAULTSHIM_ERRNO.
 *
 * Log line: "<k> <tid> <op> <path> <ok|FAIL:<errno>|FAIL-SHORT:<requested>|err:<errno>>"
 */
#define _GNU_SOURCE
#include <dlfcn.h>
#include <errno.h>
#include <fcntl.h>
#include <limits.h>
#include <pthread.h>
#include <stdarg.h>
#include <stdio.h>
#include <stdlib.h>
#include <string.h>
#include <sys/stat.h>
#include <sys/syscall.h>
#include <sys/types.h>
#include <sys/uio.h>
#include <unistd.h>

static pthread_mutex_t lock = PTHREAD_MUTEX_INITIALIZER;
static long counter = 0;
static long fail_at = -1;
static int fail_errno = EIO;
static char root[PATH_MAX] = "";
static size_t root_len = 0;
static int log_fd = -1;
static int initialised = 0;
#define MAXFD 4096
static char *fd_path[MAXFD];
static int short_mode = 0;          /* FAULTSHIM_SHORT=1: the chosen write is a SHORT write (half of the bytes are written and
                                       reported), every later write on that descriptor fails with FAULTSHIM_ERRNO (no more room) */
static char fd_full[MAXFD];

static void init(void) {
    if (initialised) return;
    initialised = 1;
    const char *e;
    if ((e = getenv("FAULTSHIM_FAIL_AT"))) fail_at = atol(e);
    if ((e = getenv("FAULTSHIM_ERRNO"))) fail_errno = atoi(e);
    if ((e = getenv("FAULTSHIM_SHORT"))) short_mode = atoi(e);
    if ((e = getenv("FAULTSHIM_ROOT"))) { strncpy(root, e, sizeof(root) - 1); root_len = strlen(root); }
    if ((e = getenv("FAULTSHIM_LOG"))) log_fd = syscall(SYS_openat, AT_FDCWD, e, O_WRONLY | O_CREAT | O_APPEND | O_CLOEXEC, 0644);
}

/* absolute, lexically normalised-enough path: relative paths are joined to the cwd */
static int resolve(int dirfd, const char *path, char *out) {
    if (!path) return 0;
    if (path[0] == '/') { snprintf(out, PATH_MAX, "%s", path); return 1; }
    char base[PATH_MAX];
    if (dirfd == AT_FDCWD) {
        if (!getcwd(base, sizeof(base))) return 0;
    } else {
        char link[64];
        snprintf(link, sizeof(link), "/proc/self/fd/%d", dirfd);
        ssize_t n = readlink(link, base, sizeof(base) - 1);
        if (n < 0) return 0;
        base[n] = 0;
    }
    snprintf(out, PATH_MAX, "%s/%s", base, path);
    return 1;
}

static int under_root(const char *abs) {
    if (!root_len) return 0;
    return strncmp(abs, root, root_len) == 0 && (abs[root_len] == '/' || abs[root_len] == 0);
}

/* returns 1 if this operation must fail (errno set), 0 otherwise; *kout = its number */
static int account(const char *op, const char *abs, long *kout) {
    pthread_mutex_lock(&lock);
    long k = ++counter;
    pthread_mutex_unlock(&lock);
    *kout = k;
    (void)op; (void)abs;
    return k == fail_at;
}

static void logline(long k, const char *op, const char *abs, const char *result, int err) {
    if (log_fd < 0) return;
    char buf[PATH_MAX + 128];
    int n;
    const char *rel = abs + (under_root(abs) ? root_len : 0);
    if (err) n = snprintf(buf, sizeof(buf), "%ld %ld %s %s %s:%d\n", k, (long)syscall(SYS_gettid), op, rel, result, err);
    else n = snprintf(buf, sizeof(buf), "%ld %ld %s %s %s\n", k, (long)syscall(SYS_gettid), op, rel, result);
    if (n > 0) syscall(SYS_write, log_fd, buf, (size_t)n);
}

#define REAL(name) static __typeof__(name) *real = NULL; if (!real) real = dlsym(RTLD_NEXT, #name)

static int is_write_flags(int flags) {
    return (flags & O_ACCMODE) != O_RDONLY || (flags & (O_CREAT | O_TRUNC | O_APPEND));
}

static int do_open(const char *opname, int dirfd, const char *path, int flags, mode_t mode, int (*call)(int, const char *, int, mode_t)) {
    init();
    char abs[PATH_MAX];
    if (is_write_flags(flags) && resolve(dirfd, path, abs) && under_root(abs)) {
        long k;
        if (account(opname, abs, &k)) { logline(k, opname, abs, "FAIL", fail_errno); errno = fail_errno; return -1; }
        int fd = call(dirfd, path, flags, mode);
        int e = errno;
        if (fd >= 0 && fd < MAXFD) { free(fd_path[fd]); fd_path[fd] = strdup(abs); }
        logline(k, opname, abs, fd >= 0 ? "ok" : "err", fd >= 0 ? 0 : e);
        errno = e;
        return fd;
    }
    int fd = call(dirfd, path, flags, mode);
    if (fd >= 0 && fd < MAXFD && fd_path[fd]) { int e = errno; free(fd_path[fd]); fd_path[fd] = NULL; errno = e; }
    return fd;
}

static int call_openat(int dirfd, const char *path, int flags, mode_t mode) { return syscall(SYS_openat, dirfd, path, flags | O_LARGEFILE, mode); }

int open(const char *path, int flags, ...) { mode_t m = 0; if (flags & (O_CREAT | O_TMPFILE)) { va_list ap; va_start(ap, flags); m = va_arg(ap, mode_t); va_end(ap); } return do_open("open", AT_FDCWD, path, flags, m, call_openat); }
int open64(const char *path, int flags, ...) { mode_t m = 0; if (flags & (O_CREAT | O_TMPFILE)) { va_list ap; va_start(ap, flags); m = va_arg(ap, mode_t); va_end(ap); } return do_open("open", AT_FDCWD, path, flags, m, call_openat); }
int openat(int dirfd, const char *path, int flags, ...) { mode_t m = 0; if (flags & (O_CREAT | O_TMPFILE)) { va_list ap; va_start(ap, flags); m = va_arg(ap, mode_t); va_end(ap); } return do_open("open", dirfd, path, flags, m, call_openat); }
int openat64(int dirfd, const char *path, int flags, ...) { mode_t m = 0; if (flags & (O_CREAT | O_TMPFILE)) { va_list ap; va_start(ap, flags); m = va_arg(ap, mode_t); va_end(ap); } return do_open("open", dirfd, path, flags, m, call_openat); }
int creat(const char *path, mode_t mode) { return do_open("open", AT_FDCWD, path, O_CREAT | O_WRONLY | O_TRUNC, mode, call_openat); }

int close(int fd) {
    REAL(close);
    if (fd >= 0 && fd < MAXFD) fd_full[fd] = 0;
    if (fd >= 0 && fd < MAXFD && fd_path[fd]) { free(fd_path[fd]); fd_path[fd] = NULL; }
    return real(fd);
}

ssize_t write(int fd, const void *buf, size_t n) {
    REAL(write);
    init();
    if (fd >= 0 && fd < MAXFD && fd_path[fd]) {
        long k;
        int chosen = account("write", fd_path[fd], &k);
        if (fd_full[fd]) { logline(k, "write", fd_path[fd], "FAIL", fail_errno); errno = fail_errno; return -1; }
        if (chosen && short_mode && n >= 2) {
            ssize_t r = real(fd, buf, n / 2);
            int e = errno;
            fd_full[fd] = 1;
            logline(k, "write", fd_path[fd], r >= 0 ? "FAIL-SHORT" : "err", r >= 0 ? (int)n : e);
            errno = e;
            return r;
        }
        if (chosen) { logline(k, "write", fd_path[fd], "FAIL", fail_errno); errno = fail_errno; return -1; }
        ssize_t r = real(fd, buf, n);
        int e = errno;
        logline(k, "write", fd_path[fd], r >= 0 ? "ok" : "err", r >= 0 ? 0 : e);
        errno = e;
        return r;
    }
    return real(fd, buf, n);
}

ssize_t writev(int fd, const struct iovec *iov, int cnt) {
    REAL(writev);
    init();
    if (fd >= 0 && fd < MAXFD && fd_path[fd]) {
        long k;
        if (account("write", fd_path[fd], &k)) { logline(k, "write", fd_path[fd], "FAIL", fail_errno); errno = fail_errno; return -1; }
        ssize_t r = real(fd, iov, cnt);
        int e = errno;
        logline(k, "write", fd_path[fd], r >= 0 ? "ok" : "err", r >= 0 ? 0 : e);
        errno = e;
        return r;
    }
    return real(fd, iov, cnt);
}

#define PATH_OP(opname, dirfd, path, CALL) \
    init(); \
    char abs[PATH_MAX]; \
    if (resolve(dirfd, path, abs) && under_root(abs)) { \
        long k; \
        if (account(opname, abs, &k)) { logline(k, opname, abs, "FAIL", fail_errno); errno = fail_errno; return -1; } \
        int r = CALL; \
        int e = errno; \
        logline(k, opname, abs, r == 0 ? "ok" : "err", r == 0 ? 0 : e); \
        errno = e; \
        return r; \
    } \
    return CALL;

int unlink(const char *path) { REAL(unlink); PATH_OP("unlink", AT_FDCWD, path, real(path)) }
int unlinkat(int dirfd, const char *path, int flags) { REAL(unlinkat); PATH_OP(flags & AT_REMOVEDIR ? "rmdir" : "unlink", dirfd, path, real(dirfd, path, flags)) }
int mkdir(const char *path, mode_t mode) { REAL(mkdir); PATH_OP("mkdir", AT_FDCWD, path, real(path, mode)) }
int mkdirat(int dirfd, const char *path, mode_t mode) { REAL(mkdirat); PATH_OP("mkdir", dirfd, path, real(dirfd, path, mode)) }
int rmdir(const char *path) { REAL(rmdir); PATH_OP("rmdir", AT_FDCWD, path, real(path)) }
int chmod(const char *path, mode_t mode) { REAL(chmod); PATH_OP("chmod", AT_FDCWD, path, real(path, mode)) }
int rename(const char *a, const char *b) { REAL(rename); PATH_OP("rename", AT_FDCWD, b, real(a, b)) }
int renameat(int da, const char *a, int db, const char *b) { REAL(renameat); PATH_OP("rename", db, b, real(da, a, db, b)) }
int link(const char *a, const char *b) { REAL(link); PATH_OP("link", AT_FDCWD, b, real(a, b)) }
int symlink(const char *a, const char *b) { REAL(symlink); PATH_OP("symlink", AT_FDCWD, b, real(a, b)) }

int fchmod(int fd, mode_t mode) {
    REAL(fchmod);
    init();
    if (fd >= 0 && fd < MAXFD && fd_path[fd]) {
        long k;
        if (account("fchmod", fd_path[fd], &k)) { logline(k, "fchmod", fd_path[fd], "FAIL", fail_errno); errno = fail_errno; return -1; }
        int r = real(fd, mode);
        int e = errno;
        logline(k, "fchmod", fd_path[fd], r == 0 ? "ok" : "err", r == 0 ? 0 : e);
        errno = e;
        return r;
    }
    return real(fd, mode);
}

int ftruncate(int fd, off_t len) {
    REAL(ftruncate);
    init();
    if (fd >= 0 && fd < MAXFD && fd_path[fd]) {
        long k;
        if (account("ftruncate", fd_path[fd], &k)) { logline(k, "ftruncate", fd_path[fd], "FAIL", fail_errno); errno = fail_errno; return -1; }
        int r = real(fd, len);
        int e = errno;
        logline(k, "ftruncate", fd_path[fd], r == 0 ? "ok" : "err", r == 0 ? 0 : e);
        errno = e;
        return r;
    }
    return real(fd, len);
}
