import sys, os, collections, json
sys.path.insert(0,'/verif/lib')
import common, cliprops, cli, multiprocessing
b = cliprops.rq()
fn = getattr(cliprops, sys.argv[1])
n = int(sys.argv[2]); base=int(sys.argv[3]) if len(sys.argv)>3 else 1000003
pat = sys.argv[4] if len(sys.argv)>4 else ''
c = collections.Counter()
with multiprocessing.Pool(16) as pool:
    for seed,res in zip(range(n), pool.imap(cli._call, [(fn,(base+i,b)) for i in range(n)], chunksize=4)):
        if 'error' in res: print(res['error']); continue
        for k,v in res.get('counters',{}).items():
            if pat in k: c[k]+=v
        c['#violations']+=len(res['violations'])
for k,v in sorted(c.items()): print(v,k)
