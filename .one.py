import sys,os,random,json,shutil
sys.path.insert(0,'/verif/lib')
import wsgen, runner, common, cli
seed=int(sys.argv[1])
r = random.Random(seed * 7919 + 5)
cfg = wsgen.GenConfig(p_fail=0.75, max_patches=r.choice([2, 4, 6, 8]))
ws=wsgen.generate(seed,cfg)
print(json.dumps(ws.describe()))
root='/dev/shm/t/ws1'
shutil.rmtree(root,ignore_errors=True)
wsgen.materialize(ws,root)
args=sys.argv[2:] or ['-q','--threads','1','push','-a']
import cliprops; rr=runner.run_rq(cliprops.rq(), root, args)
print(rr.rc, rr.err.decode()[-1500:])
for p in ws.patches:
    print('=====',p.series_line); print(p.text.decode('latin-1'))
