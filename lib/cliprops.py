"""CLI-level checks (the rapidquilt binary on generated workspaces)."""

import os
import random

import cli
import runner
import wsgen
from cli import Res, Scratch, base_args, case_key
from common import build_binary

Q = "quick"


def n(tier, quick, thorough):
    return quick if tier == Q else thorough


_BIN = {}


def rq():
    if "bin" not in _BIN:
        _BIN["bin"] = build_binary()
    return _BIN["bin"]


def fresh(scr, ws, first=0):
    """materialise pristine copy + working copy; returns (orig, work)"""
    orig = os.path.join(scr, "ws.orig")
    work = os.path.join(scr, "ws")
    wsgen.materialize(ws, orig, applied=first)
    runner.copy_ws(orig, work)
    return orig, work


# ----------------------------------------------------------------------------
# C05


def c05_worker(item):
    seed, binary = item
    r = random.Random(seed * 7919 + 5)
    res = Res()
    cfg = wsgen.GenConfig(p_fail=0.75, max_patches=r.choice([2, 4, 6, 8]))
    ws = wsgen.generate(seed, cfg)
    threads = r.choice([1, 1, 2, 4, 16])
    backup = r.choice(["always", "onfail", "never", None])
    verbosity = r.choice(["-q", "-q", None, "-v"])
    first = 0
    if ws.fail_at is None:
        first = r.randint(0, len(ws.patches) - 1) if r.random() < 0.3 else 0
    elif ws.fail_at > 0 and r.random() < 0.3:
        first = r.randint(0, ws.fail_at)
    goal = r.choice(["-a", "-a", "-a", "count"])
    count = len(ws.patches) if goal == "-a" else r.randint(1, len(ws.patches))
    args = base_args(threads=threads, backup=backup, verbosity=verbosity) + ["push"] + (["-a"] if goal == "-a" else [str(count)])
    cfg_sig = {"driver": "seq" if threads == 1 else "par", "verbosity": verbosity or "default"}
    with Scratch("c05") as scr:
        orig, work = fresh(scr, ws, first)
        rr = runner.run_rq(binary, work, args)
        res["evals"] = 1
        out = cli.check_push_outcome(res, ws, work, rr, first, count, cfg_sig, [binary] + args)
        reasons = sorted(set(o.poison for p in ws.patches for o in p.ops if o.poison))
        res.count("runs:threads=%s" % ("1" if threads == 1 else "n"))
        res.count("runs:backup=%s" % backup)
        res.count("runs:verbosity=%s" % (verbosity or "default"))
        if ws.fail_at is not None:
            for x in reasons:
                res.count("failure-reason:%s" % x)
        if out:
            k, _, fail_idx, obs = out
            res.count("held-runs")
            if fail_idx is not None:
                res.count("runs-stopping-at-a-failing-patch")
                fp = ws.patches[fail_idx]
                multi = len(fp.ops) >= 2
                if fail_idx - first > 0 or multi:
                    res["nontrivial"].append(case_key(cli.ws_shape_key(ws), threads, backup, verbosity, first, count))
                if fail_idx - first > 0:
                    res.count("failing-patch-not-first")
                if multi:
                    res.count("multi-file-failing-patch")
            else:
                res.count("runs-applying-everything")
        if seed % 500 == 1:
            res["sample"] = {"workspace": ws.describe(), "args": args, "first_applied": first, "exit": rr.rc,
                             "expected_applied_by_this_run": wsgen.expected_after(ws, first, count)[0]}
    return res


def cli_c05(v, tier, seed):
    b = rq()
    nruns = n(tier, 4000, 60000)
    cli.pool_run(v, c05_worker, [(seed * 1_000_003 + i, b) for i in range(nruns)])
