"""CLI-level checks (the rapidquilt binary on generated workspaces)."""

import json
import os
import random

import cli
import runner
import wsgen
from cli import Res, Scratch, base_args, case_key
from common import build_binary

Q = "quick"


def n(tier, quick, thorough):
    return quick if tier == Q else thorough


_BIN = {}


def rq():
    if "bin" not in _BIN:
        _BIN["bin"] = build_binary()
    return _BIN["bin"]


def unterminate_applied(root):
    """strip the final newline of .pc/applied-patches (as after an edit by hand); True if something was stripped"""
    p = os.path.join(root, ".pc", "applied-patches")
    try:
        with open(p, "rb") as f:
            data = f.read()
    except OSError:
        return False
    if not data.endswith(b"\n") or len(data) < 2:
        return False
    with open(p, "wb") as f:
        f.write(data[:-1])
    return True


def fresh(scr, ws, first=0, r=None, res=None):
    """materialise pristine copy + working copy; returns (orig, work).  With a random source and a prior applied state the
    last line of applied-patches is sometimes left without its newline."""
    orig = os.path.join(scr, "ws.orig")
    work = os.path.join(scr, "ws")
    wsgen.materialize(ws, orig, applied=first)
    if r is not None and first > 0 and r.random() < 0.25 and unterminate_applied(orig):
        if res is not None:
            res.count("prior-applied-patches-file-without-final-newline")
    if r is not None and first == 0 and r.random() < 0.1:
        # as after a push that failed at the very first patch: the file is there, with nothing in it
        os.makedirs(os.path.join(orig, ".pc"), exist_ok=True)
        open(os.path.join(orig, ".pc", "applied-patches"), "wb").close()
        if res is not None:
            res.count("prior-applied-patches-file-of-zero-length")
    runner.copy_ws(orig, work)
    return orig, work


# ----------------------------------------------------------------------------
# C05


def c05_worker(item):
    seed, binary = item
    r = random.Random(seed * 7919 + 5)
    res = Res()
    cfg = wsgen.GenConfig(p_fail=0.75, max_patches=r.choice([2, 4, 6, 8]))
    cfg.p_second_fail = 0.3
    cfg.p_early_poison = 0.4
    shape_x = r.random()
    if shape_x < 0.015:
        ws = wsgen.generate_long(seed, r.randint(101, 130), p_fail=0.5)      # more patches than the default backup window
        res.count("long-series-(>100-patches)")
    elif shape_x < 0.03:
        ws = wsgen.generate_long(seed, r.randint(2, 6), big_lines=r.choice([65536, 70001, 131073]), p_fail=0.5)   # a file with > 65535 lines
        res.count("big-file-(>65535-lines)")
    else:
        ws = wsgen.generate(seed, cfg)
        if r.random() < 0.1 and wsgen.add_nested_emptying(ws, r):
            res.count("shape:nested-directories-emptied")
        if r.random() < 0.08 and wsgen.add_note_patch(ws, r):
            res.count("shape:patch-file-without-any-file-patch")
        if r.random() < 0.08 and wsgen.add_empty_dirs(ws, r):
            res.count("shape:empty-directories-in-the-starting-tree")
    threads = r.choice([1, 1, 2, 4, 16])
    backup = r.choice(["always", "onfail", "never", None])
    verbosity = r.choice(["-q", "-q", None, "-v"])
    first = 0
    if ws.fail_at is None:
        first = r.randint(0, len(ws.patches) - 1) if r.random() < 0.3 else 0
    elif ws.fail_at > 0 and r.random() < 0.3:
        first = r.randint(0, ws.fail_at)
    goal = r.choice(["-a", "-a", "-a", "count"])
    count = len(ws.patches) if goal == "-a" else r.randint(1, len(ws.patches))
    bcount = r.choice([None, None, None, 0, 1, 2, "all"])
    args = base_args(threads=threads, backup=backup, backup_count=bcount, verbosity=verbosity) + ["push"] + (["-a"] if goal == "-a" else [str(count)])
    cfg_sig = {"driver": "seq" if threads == 1 else "par", "verbosity": verbosity or "default"}
    # a quarter of the runs name the working directory with -d (from another cwd) and / or keep the patches elsewhere (-p)
    use_d = r.random() < 0.25
    patches_dir = r.choice(["patches", "patches", "my-patches", "nested/patch dir"])
    unloadable_at = None
    if r.random() < 0.08:
        # an input error in the middle of the range: a patch names a directory as the file to patch.
        # Whatever happens, the outcome must be all-or-nothing: nothing saved, nothing recorded.
        last = min(len(ws.patches), first + count)
        stop = ws.fail_at if ws.fail_at is not None else last
        hi = last if r.random() < 0.35 else min(stop + 1, last)   # sometimes behind the failing patch
        if first < hi:
            unloadable_at = r.randrange(first, hi)
            for t in ws.trees:
                t["zdir/inner.txt"] = (b"inner\n", 0o644)
            pt = ws.patches[unloadable_at]
            an, bn = wsgen._prefix(pt.strip, "a") + "zdir", wsgen._prefix(pt.strip, "b") + "zdir"
            extra = (b"diff --git %s %s\n" % (an.encode(), bn.encode()) if pt.git else b"") + b"--- %s\n+++ %s\n@@ -1 +1 @@\n-x\n+y\n" % (an.encode(), bn.encode())
            if r.random() < 0.5:
                pt.text = pt.text + extra
            else:
                pt.text = extra + pt.text
    with Scratch("c05") as scr:
        orig, work = fresh(scr, ws, first, r, res)
        run_cwd = work
        if patches_dir != "patches":
            for d in (orig, work):
                os.makedirs(os.path.dirname(os.path.join(d, patches_dir)) or d, exist_ok=True)
                os.rename(os.path.join(d, "patches"), os.path.join(d, patches_dir))
            args = ["-p", patches_dir] + args
            res.count("runs-with--p")
        if use_d:
            run_cwd = scr
            args = ["-d", r.choice(["ws", "ws/", "./ws", work, work + "/"])] + args
            res.count("runs-with--d")
        env_extra = None
        if "--threads" in args and r.random() < 0.1:
            # the thread count from the environment instead of the option
            i = args.index("--threads")
            env_extra = {"RAPIDQUILT_THREADS": args[i + 1]}
            args = args[:i] + args[i + 2:]
            res.count("runs-with-RAPIDQUILT_THREADS")
        rr = runner.run_rq(binary, run_cwd, args, env_extra=env_extra)
        if patches_dir != "patches":
            # put the patches back where the observation code expects its inputs
            os.rename(os.path.join(work, patches_dir), os.path.join(work, "patches"))
            if "/" in patches_dir:
                try:
                    os.removedirs(os.path.dirname(os.path.join(work, patches_dir)))
                except OSError:
                    pass
        res["evals"] = 1
        if unloadable_at is not None and ws.fail_at is not None and ws.fail_at < unloadable_at:
            # a failing patch comes first: the run never gets to the unloadable target (a parallel worker may, running ahead,
            # and must not let that change the outcome) - judged like any other run
            res.count("runs-with-an-unloadable-target-after-the-failing-patch")
            unloadable_at = None
        if unloadable_at is not None:
            res.count("runs-with-an-unloadable-target")
            if rr.timed_out:
                res["inconclusive"] = "watchdog"
                return res
            obs = cli.observe(work)
            want_applied = [p.name for p in ws.patches[:first]]
            sig = dict(cfg_sig, **{"class": "input-error-not-all-or-nothing"})
            if rr.crashed():
                res.viol(dict(cfg_sig, **{"class": "crash", "rc": str(rr.rc), "where": cli.crash_site(rr.err)}), "crash: %s" % rr.err.decode("utf-8", "replace")[-400:], orig, [binary] + args)
            elif ws.fail_at is not None and ws.fail_at < unloadable_at:
                pass  # a failing patch comes first: ordinary outcome, judged by other runs
            elif rr.rc != 1:
                res.viol(dict(sig, what="exit-status"), "exit status %s although a target could not be loaded" % rr.rc, orig, [binary] + args)
            elif (obs["applied"] or []) != want_applied:
                res.viol(dict(sig, what="applied-patches"), "applied-patches %r, expected %r; stderr %s" % (obs["applied"], want_applied, rr.err.decode("utf-8", "replace")[-300:]), orig, [binary] + args)
            else:
                diffs = runner.tree_diff(obs["tree"], obs["dirs"], ws.trees[first], check_dirs=True, rej_paths=list(obs["rej"]) + [d + "/." for d in getattr(ws, "extra_dirs", ())])
                if diffs:
                    res.viol(dict(sig, what="tree"), "a target could not be loaded (patch %d) but the tree changed: %s; stderr %s" % (unloadable_at, diffs[:3], rr.err.decode("utf-8", "replace")[-300:]), orig, [binary] + args)
                else:
                    res.count("held-runs")
            return res
        out = cli.check_push_outcome(res, ws, work, rr, first, count, cfg_sig, [binary] + args)
        reasons = sorted(set(o.poison for p in ws.patches for o in p.ops if o.poison))
        res.count("runs:threads=%s" % ("1" if threads == 1 else "n"))
        res.count("runs:backup=%s" % backup)
        res.count("runs:verbosity=%s" % (verbosity or "default"))
        if ws.fail_at is not None:
            for x in reasons:
                res.count("failure-reason:%s" % x)
        if out:
            k, _, fail_idx, obs = out
            res.count("held-runs")
            if fail_idx is not None:
                res.count("runs-stopping-at-a-failing-patch")
                fp = ws.patches[fail_idx]
                multi = len(fp.ops) >= 2
                if fail_idx - first > 0 or multi:
                    res["nontrivial"].append(case_key(cli.ws_shape_key(ws), threads, backup, verbosity, first, count))
                if fail_idx - first > 0:
                    res.count("failing-patch-not-first")
                if multi:
                    res.count("multi-file-failing-patch")
                if fp.early_poison:
                    res.count("failing-file-patch-followed-by-another-for-the-same-file:verbosity=%s" % (verbosity or "default"))
            else:
                res.count("runs-applying-everything")
        if seed % 500 == 1:
            res["sample"] = {"workspace": ws.describe(), "args": args, "first_applied": first, "exit": rr.rc,
                             "expected_applied_by_this_run": wsgen.expected_after(ws, first, count)[0]}
    return res


def cli_c05(v, tier, seed):
    b = rq()
    nruns = n(tier, 10000, 150000)
    cli.pool_run(v, c05_worker, [(seed * 1_000_003 + i, b) for i in range(nruns)])


# ----------------------------------------------------------------------------
# C08 quilt metadata


def expected_backups(ws, first, k, mode, count, stopped_early):
    """{'.pc/<patch>/<path>': (bytes, mode or None)} expected after the run, or {} when none are expected"""
    want = (mode == "always") or (mode in ("onfail", None) and stopped_early)
    if not want or k == 0:
        return {}
    window = k if count == "all" else min(int(count), k)
    out = {}
    for i in range(first + k - window, first + k):
        p = ws.patches[i]
        before = ws.trees[i]
        for op in p.ops:
            names = [op.path] + ([op.new_path] if op.new_path != op.path else [])
            for nm in names:
                key = ".pc/%s/%s" % (p.name, nm)
                if key in out:
                    continue  # state before the first entry of the patch wins
                if nm in before:
                    out[key] = before[nm]
                else:
                    out[key] = (b"", None)
    return out


def c08_worker(item):
    seed, binary = item
    r = random.Random(seed * 104729 + 8)
    res = Res()
    cfg = wsgen.GenConfig(p_fail=0.4, max_patches=r.choice([3, 6, 10]), max_files=r.choice([1, 2, 4]), max_ops=r.choice([1, 3, 4]))
    cfg.p_early_poison = 0.3
    long_series = r.random() < 0.03
    if long_series:
        # more patches than the default backup window (100)
        ws = wsgen.generate_long(seed, r.randint(101, 135), nfiles=r.choice([1, 3]))
        res.count("long-series-(>100-patches)")
    elif r.random() < 0.03:
        # a file (and so its backups) of more lines than one vectored write takes (IOV_MAX = 1024)
        ws = wsgen.generate_long(seed, r.randint(2, 8), nfiles=r.choice([1, 2]), big_lines=r.choice([1025, 1500, 4097]), p_fail=0.3)
        res.count("file-of-more-than-1024-lines")
    else:
        ws = wsgen.generate(seed, cfg)
    threads = r.choice([1, 4])
    mode = r.choice(["always", "always", "onfail", "never", None])
    count = r.choice(["all", 0, 1, 2, 5, 100, None])
    if long_series:
        count = r.choice([None, None, 100, "all", 5])
    first = 0
    limit = ws.fail_at if ws.fail_at is not None else len(ws.patches) - 1
    if limit > 0 and r.random() < 0.4:
        first = r.randint(0, limit)
    goal_n = r.choice([None, None, 1, 2, 3])
    gcount = len(ws.patches) if goal_n is None else goal_n
    args = base_args(threads=threads, backup=mode, backup_count=count, verbosity="-q") + ["push"] + (["-a"] if goal_n is None else [str(goal_n)])
    sig0 = {"driver": "seq" if threads == 1 else "par"}
    with Scratch("c08") as scr:
        orig, work = fresh(scr, ws, first, r, res)
        rr = runner.run_rq(binary, work, args)
        res["evals"] = 1
        out = cli.check_push_outcome(res, ws, work, rr, first, gcount, sig0, [binary] + args)
        tree_wrong = False
        if not out:
            # a wrong tree or exit status is C05's finding, not a metadata verdict; a crash and a wrong
            # applied-patches file ("gains exactly the applied names in series order") are C08's own
            classes = set(v["sig"].get("class") for v in res["violations"])
            res["violations"] = [v for v in res["violations"] if v["sig"].get("class") in ("crash", "applied-patches")]
            if classes != {"tree-differs"}:
                res.count("runs-not-judged-(C05-oracle-failed)")
                return res
            # only the tree is wrong (exit status and applied-patches are as expected): the backups are still judged,
            # against the pre-patch states known by construction; the simulated pop needs a right tree and is skipped
            tree_wrong = True
            res.count("runs-with-a-wrong-tree-whose-backups-are-still-judged")
            k, exp_tree, fail_idx = wsgen.expected_after(ws, first, gcount)
            out = (k, exp_tree, fail_idx, cli.observe(work))
        k, exp_tree, fail_idx, obs = out
        last = min(len(ws.patches), first + gcount)
        stopped_early = (first + k) != last
        eff_count = 100 if count is None else count
        exp = expected_backups(ws, first, k, mode, eff_count, stopped_early)
        got = {p: v for p, v in obs["pc"].items() if v[0] == "f" and p != ".pc/applied-patches"}
        res.count("runs:backup=%s" % mode)
        res.count("runs:count=%s" % count)
        if exp:
            res.count("runs-with-backups-expected")
        else:
            res.count("runs-with-no-backups-expected")
        bad = None
        for p, (data, m) in exp.items():
            g = got.get(p)
            if g is None:
                bad = ("backup-missing", p, "")
            elif g[1] != data:
                bad = ("backup-content", p, "expected %r got %r" % (data[:60], g[1][:60]))
            elif m is not None and g[2] != m:
                bad = ("backup-mode", p, "expected %o got %o" % (m, g[2]))
            if bad:
                break
        if not bad:
            for p in got:
                if p not in exp:
                    bad = ("backup-unexpected", p, "%d bytes" % len(got[p][1]))
                    break
        if not bad and exp and not tree_wrong:
            # simulated pop: restore newest first
            tree = {p: (v[1], v[2]) for p, v in obs["tree"].items()}
            window = k if eff_count == "all" else min(int(eff_count), k)
            for i in range(first + k - 1, first + k - window - 1, -1):
                pn = ws.patches[i].name
                pre = ".pc/%s/" % pn
                for p, v in got.items():
                    if p.startswith(pre):
                        path = p[len(pre):]
                        if len(v[1]) == 0:
                            tree.pop(path, None)
                        else:
                            tree[path] = (v[1], v[2])
            want_tree = ws.trees[first + k - window]
            a = {p: v for p, v in tree.items() if v[0]}
            b = {p: (v[0], v[1] & 0o7777) for p, v in want_tree.items() if v[0]}
            if a != b:
                diffp = sorted(set(a) ^ set(b)) or [p for p in a if a[p] != b.get(p)]
                bad = ("simulated-pop-differs", diffp[0] if diffp else "?", "")
        if bad:
            res.viol(dict(sig0, **{"class": bad[0]}), "%s %s %s (backup mode %s count %s, k=%d first=%d)" % (bad[0], bad[1], bad[2], mode, count, k, first),
                     work + ".orig", [binary] + args, extra={"workspace": ws.describe()})
        else:
            res.count("held-runs")
            # non-trivial: a file touched by >= 2 applied patches inside the window
            if exp:
                touched = {}
                window = k if eff_count == "all" else min(int(eff_count), k)
                for i in range(first + k - window, first + k):
                    for op in ws.patches[i].ops:
                        touched.setdefault(op.path, set()).add(i)
                if any(len(s) >= 2 for s in touched.values()):
                    res["nontrivial"].append(case_key(cli.ws_shape_key(ws), mode, count, first, gcount, threads))
                    res.count("file-touched-by>=2-patches-in-window")
                if any(len([o for o in ws.patches[i].ops if o.path == op.path]) >= 2 for i in range(first + k - window, first + k) for op in ws.patches[i].ops):
                    res.count("several-entries-for-one-file-in-a-patch")
                if any(o.kind == "rename" for i in range(first + k - window, first + k) for o in ws.patches[i].ops):
                    res.count("rename-in-window")
                if first:
                    res.count("prior-applied-state")
        if seed % 400 == 3:
            res["sample"] = {"workspace": ws.describe(), "args": args, "first_applied": first, "applied_by_run": k,
                             "backups_expected": sorted(exp)[:12], "backups_found": sorted(got)[:12]}
    return res


def cli_c08(v, tier, seed):
    b = rq()
    cli.pool_run(v, c08_worker, [(seed * 1_000_003 + i, b) for i in range(n(tier, 8000, 120000))])


# ----------------------------------------------------------------------------
# C09 pushes compose


def c09_type_change_case(r, seed):
    """directed shape (known finding D28): within the series a path changes between file and directory - a file is deleted and
    a later patch creates something below its name, or the last file of a directory is deleted and a later patch creates a
    file with the directory's name.  Pushed patch by patch this works; the statement wants one invocation to do the same."""
    variant = r.choice(["file-becomes-directory", "directory-becomes-file"])
    base = r.choice(["node", "src/thing", "a/b/c"])
    keep = b"k1\nk2\nk3\n"
    t0 = {"keep.txt": (keep, 0o644)}
    if variant == "file-becomes-directory":
        old, new = base, base + "/" + r.choice(["inner.txt", "x/y.c"])
    else:
        old, new = base + "/" + r.choice(["only.txt", "deep/only.c"]), base
    t0[old] = (b"the old content\n", r.choice([0o644, 0o755]))
    op1 = wsgen.Op("delete", old, pre=t0[old][0], post=None, pre_mode=t0[old][1], post_mode=None)
    op1.style = "devnull"
    op2 = wsgen.Op("create", new, pre=None, post=b"the new content\n", pre_mode=None, post_mode=0o644)
    op2.style = "devnull"
    opk = wsgen.Op("modify", "keep.txt", pre=keep, post=b"k1\nK2\nk3\n", pre_mode=0o644, post_mode=0o644)
    seqs = [[op1]]
    if r.random() < 0.5:
        seqs.append([opk])
    seqs.append([op2])
    ws = wsgen.Workspace()
    ws.seed = seed
    ws.t0 = dict(t0)
    ws.trees = [dict(t0)]
    cur = dict(t0)
    for i, ops in enumerate(seqs):
        pt = wsgen.PatchSpec("t%02d.patch" % i, ops, 1, False, False)
        wsgen.render_patch(pt, r)
        ws.patches.append(pt)
        cur = dict(cur)
        for o in ops:
            if o.post is None:
                del cur[o.path]
            else:
                cur[o.path] = (o.post, o.post_mode)
        ws.trees.append(cur)
    ws.fail_at = None
    ws.no_goal_truth = True
    return ws


def c09_worker(item):
    seed, binary = item
    r = random.Random(seed * 15485863 + 9)
    res = Res()
    cfg = wsgen.GenConfig(p_fail=0.35, max_patches=r.choice([2, 3, 5, 8]))
    cfg.p_early_poison = 0.3
    ws = wsgen.generate(seed, cfg)
    if r.random() < 0.12:
        # differing ---/+++ names whose files were created / deleted earlier in the same run: the in-memory
        # state of a single invocation and the disk state of a split one must lead to the same choice
        ws = c16_names_case(r, seed, binary, Res(), only_workspace=True)
        ws.no_goal_truth = True
        res.count("differing-names-workspaces")
    shape = None
    if r.random() < 0.02:
        ws = c09_type_change_case(r, seed)
        shape = "path-changes-between-file-and-directory"
        res.count("shape:" + shape)
    if r.random() < 0.08 and not getattr(ws, "no_goal_truth", False) and wsgen.add_note_patch(ws, r):
        res.count("shape:patch-file-without-any-file-patch")
    if r.random() < 0.08 and not getattr(ws, "no_goal_truth", False) and wsgen.add_nested_emptying(ws, r):
        res.count("shape:nested-directories-emptied")
    if r.random() < 0.1 and not getattr(ws, "no_goal_truth", False) and wsgen.add_newdir_reject(ws, r):
        res.count("shape:reject-in-a-directory-created-by-this-run")
    if r.random() < 0.15:
        wsgen.nest_patch_names(ws, r)
        res.count("workspaces-with-patches-in-sub-directories")
    np_ = len(ws.patches)
    g = r.randint(1, np_) if len(ws.patches) != 2 or r.random() < 0.5 else 2  # goal: first g patches
    backup = r.choice(["never", "never", "always", None])

    fuzz = ["-F", str(r.choice([1, 2, 3]))] if r.random() < 0.15 else []
    if fuzz:
        ws.no_goal_truth = True   # which patch fails first is known by construction only without fuzz
        res.count("workspaces-pushed-with-fuzz")

    def inv(goal_kind, upto, threads):
        a = base_args(threads=threads, backup=backup, verbosity="-q", extra=fuzz) + ["push"]
        if goal_kind == "all":
            return a + ["-a"]
        if goal_kind == "name":
            return a + [ws.patches[upto - 1].name]
        return a  # plain 'push' = one patch

    use_d = r.random() < 0.2
    hand_edit = r.random() < 0.12    # between the invocations of the split, the final newline of applied-patches is removed
    d_form = r.choice(["%s", "%s/", "./%s", "./%s/", "abs"])

    def run(where, args):
        """one invocation in workspace `where`: from inside it, or from its parent with -d (relative or absolute)"""
        if not use_d:
            return runner.run_rq(binary, where, args)
        d = where if d_form == "abs" else d_form % os.path.basename(where)
        return runner.run_rq(binary, os.path.dirname(where), ["-d", d] + args)

    with Scratch("c09") as scr:
        orig, single = fresh(scr, ws, 0)
        split = os.path.join(scr, "split")
        runner.copy_ws(orig, split)
        if use_d:
            res.count("workspaces-driven-with--d:%s" % ("absolute" if d_form == "abs" else "relative"))
        # single invocation to goal g
        if g == np_ and r.random() < 0.5:
            a1 = inv("all", g, r.choice([1, 4]))
        elif r.random() < 0.5:
            a1 = inv("name", g, r.choice([1, 4]))
        else:
            a1 = base_args(threads=r.choice([1, 4]), backup=backup, verbosity="-q", extra=fuzz) + ["push", str(g)]
        r1 = run(single, a1)
        res["evals"] = 1
        if r1.timed_out:
            res["inconclusive"] = "watchdog"
            return res
        o1 = cli.observe(single)
        if not getattr(ws, "no_goal_truth", False) and not r1.crashed():
            # the goal itself: whatever its spelling (-a, a number, a name) the single invocation records exactly the
            # patches before the goal, or those before the first failing one
            k_want, _, _ = wsgen.expected_after(ws, 0, g)
            want = [p.name for p in ws.patches[:k_want]]
            if (o1["applied"] or []) != want:
                res.viol({"class": "goal-not-what-was-asked", "spelling": "name" if a1[-1] not in ("-a", str(g)) else ("-a" if a1[-1] == "-a" else "count")},
                         "%s recorded %r, the goal means %r; stderr %s" % (a1[-2:], o1["applied"], want, r1.err.decode("utf-8", "replace")[-300:]), orig, a1,
                         extra={"workspace": ws.describe()})
                return res
            res.count("goal-checked-against-ground-truth")
        # split: random cut sequence reaching g
        pos = 0
        seq = []
        rs = None
        applying_invocations = 0
        guard = 0
        while pos < g and guard < 40:
            guard += 1
            kind = r.choice(["one", "count", "name", "all"] if g == np_ else ["one", "count", "name"])
            th = r.choice([1, 2, 4])
            if kind == "one":
                a = inv("one", None, th)
                nxt = pos + 1
            elif kind == "count":
                c = r.randint(1, g - pos)
                a = base_args(threads=th, backup=backup, verbosity="-q", extra=fuzz) + ["push", str(c)]
                nxt = pos + c
            elif kind == "name":
                t = r.randint(pos + 1, g)
                a = inv("name", t, th)
                nxt = t
            else:
                a = inv("all", None, th)
                nxt = np_
            rs = run(split, a)
            seq.append(a)
            if hand_edit and rs.rc == 0 and unterminate_applied(split):
                res.count("applied-patches-left-without-final-newline-between-invocations")
            if rs.timed_out:
                res["inconclusive"] = "watchdog"
                return res
            before = pos
            ap = runner.read_applied(split) or []
            pos = len(ap)
            if pos > before:
                applying_invocations += 1
            if rs.rc != 0:
                break
            if pos != nxt and rs.rc == 0:
                break
        o2 = cli.observe(split)
        sig0 = {"backup": str(backup)}
        if shape:
            sig0["shape"] = shape
        detail = None
        if r1.crashed() or (rs is not None and rs.crashed()):
            bad = r1 if r1.crashed() else rs
            res.viol(dict(sig0, **{"class": "crash", "rc": str(bad.rc), "where": cli.crash_site(bad.err)}),
                     "crash: %s" % bad.err.decode("utf-8", "replace")[-500:], orig, a1, extra={"split": seq})
            return res
        if (r1.rc == 0) != (rs is None or rs.rc == 0):
            detail = ("exit-status", "single %s split-final %s" % (r1.rc, rs.rc if rs else None))
        elif o1["applied"] != o2["applied"]:
            detail = ("applied-patches", "single %r split %r" % (o1["applied"], o2["applied"]))
        elif o1["tree"] != o2["tree"]:
            dp = [p for p in set(o1["tree"]) | set(o2["tree"]) if o1["tree"].get(p) != o2["tree"].get(p)]
            what = "mode" if (dp and dp[0] in o1["tree"] and dp[0] in o2["tree"] and o1["tree"][dp[0]][1] == o2["tree"][dp[0]][1]) else "content-or-existence"
            detail = ("tree", "%s differs (%s)" % (sorted(dp)[:3], what))
            sig0["what"] = what
        elif o1["dirs"] != o2["dirs"]:
            detail = ("directories", "single-only %r split-only %r" % (sorted(o1["dirs"] - o2["dirs"]), sorted(o2["dirs"] - o1["dirs"])))
        elif o1["rej"] != o2["rej"]:
            detail = ("rejects", "single %r split %r" % (sorted(o1["rej"]), sorted(o2["rej"])))
        if detail:
            res.viol(dict(sig0, **{"class": "split-differs", "what": sig0.get("what", detail[0])}),
                     "single invocation %s vs split %s: %s: %s" % (a1, seq, detail[0], detail[1]), orig, a1,
                     extra={"split": seq, "workspace": ws.describe()})
            return res
        res.count("held-runs")
        res.count("invocations-in-split", len(seq))
        if applying_invocations >= 2:
            res["nontrivial"].append(case_key(cli.ws_shape_key(ws), g, tuple(tuple(x) for x in seq)))
            res.count("splits-with>=2-applying-invocations")
        # idempotence / failure resumption: repeat the final invocation on the single copy
        snap1 = runner.snapshot(single, with_meta=True)
        r3 = run(single, a1)
        snap2 = runner.snapshot(single, with_meta=True)
        o3 = cli.observe(single)
        if r1.rc == 0:
            # goal reached: a push to the same named / -a goal must change nothing; 'push N' legitimately applies N more
            if a1[-1] == "-a":
                res.count("idempotence-checked")
                if r3.rc != 0 or snap1 != snap2:
                    ch = [p for p in set(snap1) | set(snap2) if snap1.get(p) != snap2.get(p)]
                    res.viol({"class": "repeat-changes-something", "rc": str(r3.rc)}, "repeating %s when everything is applied: rc %s, changed %s" % (a1, r3.rc, sorted(ch)[:5]), orig, a1)
        else:
            res.count("failure-resumption-checked")
            if r3.rc != r1.rc or o3["applied"] != o1["applied"] or o3["tree"] != o1["tree"] or o3["rej"] != o1["rej"] or o3["dirs"] != o1["dirs"] \
                    or r3.failed_patch() != r1.failed_patch():
                res.viol({"class": "resume-after-failure-differs"}, "push after a failed push: rc %s->%s failed patch %s->%s applied %s->%s" % (
                    r1.rc, r3.rc, r1.failed_patch(), r3.failed_patch(), o1["applied"], o3["applied"]), orig, a1)
        if seed % 400 == 5:
            res["sample"] = {"workspace": ws.describe(), "single": a1, "split": seq, "exit": r1.rc}
    return res


def cli_c09(v, tier, seed):
    b = rq()
    cli.pool_run(v, c09_worker, [(seed * 1_000_003 + i, b) for i in range(n(tier, 5000, 80000))])


# ----------------------------------------------------------------------------
# C13 reject files


def expected_rejects(ws, fail_idx):
    """{rej path: (op, [failing hunks])} for the failing patch; for a rename both names are possible"""
    out = {}
    p = ws.patches[fail_idx]
    for op in p.ops:
        if not op.poison or op.poison == "rename-over":
            continue   # a refused rename is not applied at all: no reject
        hunks = [op.hunks[i] for i in op.failing]
        key = op.path + ".rej"
        if key in out:
            # several file patches of the patch for the same file: one reject holding the failed hunks of all of them, in order
            out[key] = (out[key][0], out[key][1] + hunks)
        else:
            out[key] = (op, hunks)
    return out


def c13_drift_case(r, seed):
    """directed shape: a file that gained K lines at the top (among them a copy of a later region) since the patch was made;
    the patch has three or four hunks of which one in the middle cannot apply.  The hunks around it apply with offset K
    - also the one right after the failed hunk, whose look-alike in the new head lines is nearer to its stated line -
    and the reject holds exactly the failed hunk."""
    import udiff
    nh = r.choice([3, 3, 4])
    gaps = [r.randint(9, 16) for _ in range(nh)]
    pos = []
    x = r.randint(5, 9)
    for g in gaps:
        pos.append(x)
        x += g
    n = pos[-1] + r.randint(5, 12)
    body = [b"L%d body line %d\n" % (i, (i * 7919) % 101) for i in range(1, n + 1)]
    new_body = list(body)
    for q in pos:
        new_body[q - 1] = b"L%d CHANGED\n" % q
    ctx = 3
    hunks = udiff.diff_hunks(body, new_body, ctx)
    if len(hunks) != nh:
        return None
    fail_i = r.randint(1, nh - 2) if nh > 2 else 1
    nxt = pos[fail_i + 1]                 # changed line of the hunk after the failed one
    look = body[nxt - 4:nxt + 3]           # its complete old side
    k = r.randint(len(look) + 2, max(len(look) + 3, nxt + 10))
    head = [b"H%d new head line\n" % i for i in range(k)]
    stated = nxt - 3
    s0 = max(0, min(k - len(look), stated - 1 + r.choice([-2, -1, 1, 2])))
    if s0 + 1 == stated + k:
        return None
    head[s0:s0 + len(look)] = look
    on_disk = list(body)
    on_disk[pos[fail_i] - 1] = b"L%d edited locally\n" % pos[fail_i]
    name = r.choice(["drift.c", "src/drift.c"])
    t0 = {name: (b"".join(head + on_disk), 0o644), "other.txt": (b"o1\no2\n", 0o644)}
    op = wsgen.Op("modify", name, pre=b"".join(body), post=b"".join(new_body), pre_mode=0o644, post_mode=0o644)
    op.poison = "hunks"
    op.hunks = hunks
    op.failing = [fail_i]
    pt = wsgen.PatchSpec("p-drift.patch", [op], 1, False, False)
    pt.text = b"--- a/%s\n+++ b/%s\n" % (name.encode(), name.encode()) + b"".join(h.render() for h in hunks)
    pt.series_line = pt.name
    ws = wsgen.Workspace()
    ws.seed = seed
    ws.t0 = t0
    ws.patches = [pt]
    ws.trees = [t0]
    ws.fail_at = 0
    if r.random() < 0.5:
        o2 = wsgen.Op("modify", "other.txt", pre=b"o1\no2\n", post=b"o1\nO2\n", pre_mode=0o644, post_mode=0o644)
        p0 = wsgen.PatchSpec("p-before.patch", [o2], 1, False, False)
        wsgen.render_patch(p0, r)
        t1 = dict(t0)
        t1["other.txt"] = (o2.post, 0o644)
        ws.patches = [p0, pt]
        ws.trees = [t0, t1]
        ws.fail_at = 1
    ws.drift = k
    return ws


def c13_twice_case(r, seed):
    """directed shape: the failing patch has two file patches for the same file and each of them has a hunk that fails
    (the second is a diff against the file as the first leaves it; every change replaces lines one for one, so nothing moves)"""
    n = 44
    v0 = [b"T%d some text %d\n" % (i, (i * 31) % 17) for i in range(1, n + 1)]
    spots = [5, 15, 25, 35]
    v1 = list(v0)
    for q in spots[:2]:
        v1[q - 1] = b"T%d first change\n" % q
    v2 = list(v1)
    for q in spots[2:]:
        v2[q - 1] = b"T%d second change\n" % q
    name = r.choice(["twice.c", "lib/twice.c"])
    git = r.random() < 0.4
    ctx = r.choice([1, 2, 3])
    o1 = wsgen.Op("modify", name, pre=b"".join(v0), post=b"".join(v1), pre_mode=0o644, post_mode=0o644)
    o2 = wsgen.Op("modify", name, pre=b"".join(v1), post=b"".join(v2), pre_mode=0o644, post_mode=0o644)
    for o in (o1, o2):
        o.style = "git" if git else "plain"
        o.ctx = ctx
        o.poison = "hunks"
        o.poison_want = sorted(r.sample([0, 1], r.randint(1, 2)))
    ops = [o1, o2]
    t0 = {name: (b"".join(v0), 0o644), "other.txt": (b"o1\no2\n", 0o644)}
    if r.random() < 0.5:
        # ... with a failing file patch for another file between the two
        ob = wsgen.Op("modify", "between.c", pre=b"b1\nb2\nb3\n", post=b"b1\nB2\nb3\n", pre_mode=0o644, post_mode=0o644)
        ob.style = "git" if git else "plain"
        ob.ctx = ctx
        ob.poison = "hunks"
        ob.poison_want = [0]
        ops = [o1, ob, o2]
        t0["between.c"] = (ob.pre, 0o644)
    pt = wsgen.PatchSpec("p-twice.patch", ops, 1, False, git)
    wsgen.render_patch(pt, r)
    if len(o1.hunks) != 2 or len(o2.hunks) != 2:
        return None
    ws = wsgen.Workspace()
    ws.seed = seed
    ws.t0 = t0
    ws.patches = [pt]
    ws.trees = [t0]
    ws.fail_at = 0
    return ws


def c13_bigblock_case(r, seed):
    """directed shape: the failing hunk replaces a long block (65-160 lines) by another long block without a line in common"""
    import udiff
    n = 220
    body = [b"B%d line\n" % i for i in range(1, n + 1)]
    a = r.randint(20, 40)
    k, k2 = r.randint(65, 160), r.randint(65, 160)
    new_body = body[:a] + [b"        statement_%d();\n" % i for i in range(k2)] + body[a + k:]
    old_block = [b"    statement_%d();\n" % i for i in range(k)]
    body = body[:a] + old_block + body[a + k:]
    hunks = udiff.diff_hunks(body, new_body, 3)
    if len(hunks) != 1:
        return None
    on_disk = list(body)
    on_disk[a - 2] = b"edited locally\n"     # a context line differs: the hunk can not apply (fuzz 0)
    name = r.choice(["big.c", "src/big.c"])
    t0 = {name: (b"".join(on_disk), 0o644)}
    op = wsgen.Op("modify", name, pre=b"".join(body), post=b"".join(new_body), pre_mode=0o644, post_mode=0o644)
    op.poison = "hunks"
    op.hunks = hunks
    op.failing = [0]
    pt = wsgen.PatchSpec("p-bigblock.patch", [op], 1, False, False)
    pt.text = b"--- a/%s\n+++ b/%s\n" % (name.encode(), name.encode()) + b"".join(h.render() for h in hunks)
    pt.series_line = pt.name
    pt.prefix_style = "plain"
    ws = wsgen.Workspace()
    ws.seed = seed
    ws.t0 = t0
    ws.patches = [pt]
    ws.trees = [t0]
    ws.fail_at = 0
    return ws


def c13_worker(item):
    seed, binary = item
    r = random.Random(seed * 32452843 + 13)
    res = Res()
    cfg = wsgen.GenConfig(p_fail=1.0, max_patches=r.choice([1, 2, 4]), max_ops=r.choice([2, 4, 5]), max_files=r.choice([2, 4, 6]))
    cfg.kinds = ["modify"] * 10 + ["create", "delete", "chmod", "truncate"]
    ws = wsgen.generate(seed, cfg)
    if ws.fail_at is None:
        return res
    if r.random() < 0.15 and wsgen.add_newdir_reject(ws, r):
        res.count("shape:reject-in-a-directory-created-by-this-run")
    if r.random() < 0.1 and wsgen.add_empty_dirs(ws, r):
        res.count("shape:empty-directories-in-the-starting-tree")
    if r.random() < 0.04:
        dws = c13_drift_case(r, seed)
        if dws is not None:
            ws = dws
            res.count("shape:failed-hunk-between-hunks-applied-with-an-offset")
    elif r.random() < 0.04:
        dws = c13_twice_case(r, seed)
        if dws is not None:
            ws = dws
            res.count("shape:two-failing-file-patches-for-one-file")
    elif r.random() < 0.03:
        dws = c13_bigblock_case(r, seed)
        if dws is not None:
            ws = dws
            res.count("shape:failing-hunk-that-replaces-a-long-block")
    threads = r.choice([1, 2, 4, 16])
    verbosity = r.choice(["-q", None])
    args = base_args(threads=threads, backup=r.choice(["never", None, "always"]), verbosity=verbosity) + ["push", "-a"]
    sig0 = {"driver": "seq" if threads == 1 else "par"}
    with Scratch("c13") as scr:
        orig, work = fresh(scr, ws, 0)
        if r.random() < 0.3:
            # leftovers of an earlier failed push: long stale rejects where this run will write its own
            stale = b"--- a/stale\n+++ b/stale\n" + b"".join(b"@@ -%d,1 +%d,1 @@\n-stale %d\n+STALE %d\n" % (k, k, k, k) for k in range(1, r.choice([3, 40, 400])))
            final = ws.trees[ws.fail_at]
            for rp in expected_rejects(ws, ws.fail_at):
                parent = os.path.dirname(rp)
                # only where the directory is there before and after the push in any case (a leftover must not be what keeps it)
                stays = parent == "" or (any(os.path.dirname(q) == parent for q in final) and any(os.path.dirname(q) == parent for q in ws.trees[0]))
                if not stays or r.random() >= 0.7:
                    continue
                for root in (orig, work):
                    fp = os.path.join(os.fsencode(root), rp.encode("utf-8", "surrogateescape"))
                    with open(fp, "wb") as f:
                        f.write(stale)
                res.count("stale-reject-files-in-place")
        rr = runner.run_rq(binary, work, args)
        res["evals"] = 1
        out = cli.check_push_outcome(res, ws, work, rr, 0, len(ws.patches), sig0, [binary] + args)
        if not out:
            classes = set(v["sig"].get("class") for v in res["violations"])
            res["violations"] = [v for v in res["violations"] if v["sig"].get("class") == "crash"]
            if classes != {"tree-differs"}:
                res.count("runs-not-judged-(C05-oracle-failed)")
                return res
            # only the tree is wrong (C05's finding); exit status and applied-patches are as expected, so the rejects of the
            # failing patch are still judged against what must be there by construction
            res.count("runs-with-a-wrong-tree-whose-rejects-are-still-judged")
            k, exp_tree, fail_idx = wsgen.expected_after(ws, 0, len(ws.patches))
            out = (k, exp_tree, fail_idx, cli.observe(work))
        k, exp_tree, fail_idx, obs = out
        exp = expected_rejects(ws, fail_idx)
        fp = ws.patches[fail_idx]
        dirs_after = set(obs["dirs"])
        bad = None
        got = obs["rej"]
        for rp, (op, hunks) in exp.items():
            parent = os.path.dirname(rp)
            # the directory as the tree (without rejects) defines it
            tree_dirs = set()
            for q in exp_tree:
                d = os.path.dirname(q)
                while d:
                    tree_dirs.add(d)
                    d = os.path.dirname(d)
            for q in getattr(ws, "extra_dirs", ()):
                while q:
                    tree_dirs.add(q)
                    q = os.path.dirname(q)
            dir_exists = parent == "" or parent in tree_dirs
            if rp not in got:
                if dir_exists:
                    bad = ("reject-missing", rp, "directory exists")
                    break
                res.count("reject-legitimately-skipped-(no-directory)")
                continue
            if not dir_exists:
                bad = ("reject-in-nonexistent-directory", rp, "")
                break
            header, rh = udiff_read(got[rp][1])
            names = header_names(header)
            if op.path.encode("utf-8", "surrogateescape") not in names:
                bad = ("reject-names-wrong-file", rp, "header names %r, file %r" % (names, op.path))
                break
            want = [(tuple(h.old()), tuple(h.new()), h.old_start, h.new_start) for h in hunks]
            have = [(tuple(h.old()), tuple(h.new()), h.old_start, h.new_start) for h in rh]
            if want != have:
                cls = "reject-hunk-count" if len(want) != len(have) else ("reject-hunk-lines" if [w[:2] for w in want] != [h[:2] for h in have] else "reject-line-numbers")
                bad = (cls, rp, "expected %d hunks %r, got %d hunks %r" % (len(want), [w[2:] for w in want], len(have), [h[2:] for h in have]))
                break
            # the reject must also read back as a patch for that file with the tool's own parser (harness sub-command, strip 0)
            import subprocess
            from common import HARNESS_BIN, clean_env
            rej_copy = os.path.join(scr, "reject-to-read-back.patch")   # (a name the harness can take as an argument)
            with open(rej_copy, "wb") as f:
                f.write(got[rp][1])
            try:
                dp = subprocess.run([HARNESS_BIN, "dump", rej_copy, "0"], env=clean_env(), stdout=subprocess.PIPE, stderr=subprocess.PIPE, timeout=30)
                if dp.returncode != 0:
                    raise ValueError("exit %s: %s" % (dp.returncode, dp.stderr[-200:]))
                parsed = json.loads(dp.stdout.decode("ascii"))
            except (subprocess.TimeoutExpired, ValueError) as e:
                res["inconclusive"] = "the harness could not read a reject back (harness problem, not a verdict): %r" % (e,)
                return res
            if "error" in parsed:
                bad = ("reject-does-not-parse", rp, str(parsed["error"])[:200])
                break
            fps = parsed["file_patches"]
            want_name = op.path.encode("utf-8", "surrogateescape")
            read_names = [set(x.encode("latin-1") for x in (fp["old"], fp["new"]) if x is not None) for fp in fps]
            if not fps or any(want_name not in ns for ns in read_names) or sum(len(fp["hunks"]) for fp in fps) != len(hunks):
                bad = ("reject-reads-back-as-another-patch", rp, "read back: %d file patch(es) named %r with %d hunks; wanted %r with %d hunks" % (
                    len(fps), [sorted(ns) for ns in read_names], sum(len(fp["hunks"]) for fp in fps), want_name, len(hunks)))
                break
            res.count("reject-files-verified")
            res.count("rejects-read-back-with-the-tool's-parser")
            res.count("rejected-hunks-verified", len(hunks))
        if not bad:
            for rp in got:
                if rp not in exp:
                    bad = ("reject-unexpected", rp, "no failing hunk for this file by construction")
                    break
        if bad:
            res.viol(dict(sig0, **{"class": bad[0]}), "%s %s: %s; patch %s" % (bad[0], bad[1], bad[2], fp.name), orig, [binary] + args,
                     extra={"workspace": ws.describe()})
        else:
            res.count("held-runs")
            failing_ops = [o for o in fp.ops if o.poison]
            for o in failing_ops:
                res.count("failure-reason:%s" % o.poison)
            partial = any(o.poison == "hunks" and len(o.failing) < len(o.hunks) for o in failing_ops)
            if partial:
                res.count("file-with-applying-and-failing-hunks")
            if len(fp.ops) >= 2 or partial:
                res["nontrivial"].append(case_key(cli.ws_shape_key(ws), threads, verbosity))
            if len(failing_ops) >= 2:
                res.count("several-files-rejected")
            if fp.reverse:
                res.count("reversed-failing-patch")
        if seed % 300 == 7:
            res["sample"] = {"workspace": ws.describe(), "args": args, "rejects_expected": sorted(exp), "rejects_found": sorted(got)}
    return res


def udiff_read(data):
    import udiff
    return udiff.read_hunks(data)


def header_names(header_lines):
    """names on the diff --git / --- / +++ lines of a reject file, unquoted, as bytes"""
    names = set()
    for l in header_lines:
        for pre in (b"--- ", b"+++ "):
            if l.startswith(pre):
                names.add(unquote(l[len(pre):].rstrip(b"\n")))
    return names


def unquote(n):
    if n.startswith(b'"') and n.endswith(b'"') and len(n) >= 2:
        body = n[1:-1]
        out = bytearray()
        i = 0
        esc = {ord("n"): 10, ord("t"): 9, ord("\\"): 92, ord('"'): 34, ord("a"): 7, ord("b"): 8, ord("f"): 12, ord("r"): 13, ord("v"): 11}
        while i < len(body):
            c = body[i]
            if c == 92 and i + 1 < len(body):
                d = body[i + 1]
                if d in esc:
                    out.append(esc[d])
                    i += 2
                    continue
                if i + 3 < len(body) + 1 and all(48 <= x <= 55 for x in body[i + 1:i + 4]) and len(body[i + 1:i + 4]) == 3:
                    out.append(int(body[i + 1:i + 4], 8))
                    i += 4
                    continue
            out.append(c)
            i += 1
        return bytes(out)
    # unquoted: up to first whitespace (timestamps may follow)
    return n.split(b"\t")[0].split(b" ")[0]


def cli_c13(v, tier, seed):
    from common import build_harness
    build_harness()
    b = rq()
    cli.pool_run(v, c13_worker, [(seed * 1_000_003 + i, b) for i in range(n(tier, 10000, 150000))])


# ----------------------------------------------------------------------------
# strace helper


def run_traced(binary, cwd, args, log, env_extra=None):
    import stracelog
    rr = runner.run_rq(binary, cwd, args, pre=stracelog.STRACE + ["-o", log], timeout=120, env_extra=env_extra)
    ev = stracelog.parse(log, cwd) if os.path.exists(log) else []
    return rr, ev


# ----------------------------------------------------------------------------
# C10 dry-run


def c10_worker(item):
    import stracelog
    seed, binary = item
    r = random.Random(seed * 49979687 + 10)
    res = Res()
    cfg = wsgen.GenConfig(p_fail=0.5, max_patches=r.choice([1, 3, 6]))
    cfg.p_early_poison = 0.3
    cfg.p_second_fail = 0.6
    ws = wsgen.generate(seed, cfg)
    threads = r.choice([1, 4])
    backup = r.choice(["always", "onfail", "never", None])
    verbosity = r.choice(["-q", None, "-v"])
    failing = [i for i, p in enumerate(ws.patches) if p.fails()]
    sched = None
    if threads > 1 and len(failing) >= 2:
        # forced schedule for the prediction clause: a later failing patch is flagged before the worker that
        # owns the first failing patch gets to it (the dry-run must still report the first one)
        i, j = failing[0], r.choice(failing[1:])
        sched = ["after flagged:%d apply-begin:%d:* 300" % (j, i)] if r.random() < 0.7 else ["delay apply-begin:%d:* 30" % i]
    first = 0
    if ws.fail_at is None and len(ws.patches) > 1 and r.random() < 0.3:
        first = r.randint(1, len(ws.patches) - 1)
    goal = ["-a"] if r.random() < 0.7 else ([str(r.randint(1, len(ws.patches)))] if r.random() < 0.6 or first else [r.choice(ws.patches).name])
    extra = []
    if r.random() < 0.35:
        # other options in combination with --dry-run (the comparison with the real run is differential, so any option goes)
        for opt in r.sample([["-F", str(r.choice([1, 2, 3]))], ["-A", "multiapply"], ["--mmap"], ["--stats"], ["--color", "always"], ["--backup-count", r.choice(["0", "1", "all"])]], r.randint(1, 3)):
            extra += opt
        res.count("dry-runs-with-other-options")
    if goal == ["-a"] and r.random() < 0.06:
        # a creation whose names are stripped away entirely (-p9): whatever the tool makes of it, the dry run must agree
        # with the real run and write nothing
        pz = wsgen.PatchSpec("pzz-overstripped.patch", [], 9, False, False)
        pz.text = b"--- /dev/null\n+++ b/deep/er/new.txt\n@@ -0,0 +1,2 @@\n+brand\n+new\n"
        pz.series_line = pz.name + " -p9"
        pz.prefix_style = "plain"
        ws.patches.append(pz)
        res.count("series-with-a-creation-whose-name-is-stripped-away")
    common_args = base_args(threads=threads, backup=backup, verbosity=verbosity, extra=extra)
    dry = common_args + ["--dry-run", "push"] + goal
    real = common_args + ["push"] + goal
    sig0 = {"driver": "seq" if threads == 1 else "par"}
    with Scratch("c10") as scr:
        orig, work = fresh(scr, ws, first, r, res)
        realdir = os.path.join(scr, "real")
        runner.copy_ws(orig, realdir)
        before = runner.snapshot(work, with_meta=True)
        env_extra = None
        if sched:
            sp = os.path.join(scr, "sched.txt")
            with open(sp, "w") as f:
                f.write("\n".join(sched) + "\n")
            env_extra = {"RAPIDQUILT_VERIF_SCHED": sp}
            res.count("dry-runs-under-a-forced-flag-order")
        rr, events = run_traced(binary, work, dry, os.path.join(scr, "strace.log"), env_extra=env_extra)
        after = runner.snapshot(work, with_meta=True)
        res["evals"] = 1
        if rr.timed_out:
            res["inconclusive"] = "watchdog"
            return res
        if rr.crashed():
            res.viol(dict(sig0, **{"class": "crash", "rc": str(rr.rc), "where": cli.crash_site(rr.err)}), "dry-run crashed: %s" % rr.err.decode("utf-8", "replace")[-500:], orig, [binary] + dry)
            return res
        if before != after:
            ch = sorted(p for p in set(before) | set(after) if before.get(p) != after.get(p))
            kinds = "created" if any(p not in before for p in ch) else ("removed" if any(p not in after for p in ch) else "modified-or-touched")
            res.viol(dict(sig0, **{"class": "dry-run-changed-the-tree", "how": kinds}), "changed by --dry-run: %s" % ch[:6], orig, [binary] + dry)
            return res
        wc = [e for e in events if e.write_class and any(stracelog.under(p, work) for p in e.paths)]
        res.count("syscalls-audited", len(events))
        if wc:
            res.viol(dict(sig0, **{"class": "dry-run-write-class-syscall", "call": wc[0].call}), "write-class calls under the working directory during --dry-run: %s" % [e.raw[:160] for e in wc[:4]],
                     orig, [binary] + dry)
            return res
        r2 = runner.run_rq(binary, realdir, real)
        if r2.timed_out or r2.crashed():
            res.count("real-run-not-usable-for-prediction")
            return res
        if r2.rc != rr.rc or r2.failed_patch() != rr.failed_patch():
            res.viol(dict(sig0, **{"class": "dry-run-mispredicts", "what": "exit-status" if r2.rc != rr.rc else "failing-patch"}),
                     "dry-run: exit %s failing %s; real run: exit %s failing %s" % (rr.rc, rr.failed_patch(), r2.rc, r2.failed_patch()), orig, [binary] + dry)
            return res
        res.count("held-runs")
        res.count("dry-runs:exit=%s" % rr.rc)
        realsnap = runner.snapshot(realdir)
        b0 = {p: v[:3] for p, v in before.items()}
        if any(realsnap.get(p) != b0.get(p) for p in set(realsnap) | set(b0)):
            res["nontrivial"].append(case_key(cli.ws_shape_key(ws), threads, backup, verbosity, first, tuple(goal)))
            res.count("real-run-writes-something")
        if seed % 100 == 11:
            res["sample"] = {"workspace": ws.describe(), "args": dry, "exit": rr.rc, "failing_patch": rr.failed_patch(), "syscalls_seen": len(events),
                             "calls": sorted(set(e.call for e in events))}
    return res


def cli_c10(v, tier, seed):
    b = rq()
    cli.pool_run(v, c10_worker, [(seed * 1_000_003 + i, b) for i in range(n(tier, 3000, 40000))])


# ----------------------------------------------------------------------------
# C15 files are replaced, never edited in place


def c15_worker(item):
    import stracelog
    seed, binary = item
    r = random.Random(seed * 67867967 + 15)
    res = Res()
    cfg = wsgen.GenConfig(p_fail=0.4, max_patches=r.choice([1, 3, 6]))
    ws = wsgen.generate(seed, cfg)
    # bystanders: files no patch names
    by = {"bystander/keep.txt": (b"do not touch\n", 0o644), "README.bystander": (b"readme\n", 0o600), "src/bystander.c": (b"int main;\n", 0o755)}
    # ... and files whose names are related to files the patches do name (editor backups, lock files): never a temporary name
    # the tool may use
    named0 = set(q for p_ in ws.patches for o in p_.ops for q in (o.path, o.new_path))
    for q in sorted(named0)[:4]:
        d, b = os.path.split(q)
        for rel in (b + "~", b + ".bak", "#" + b + "#", "." + b + ".swp", b + ".tmp"):
            nm = os.path.join(d, rel)
            if nm not in named0 and not any(nm in t for t in ws.trees) and r.random() < 0.5 and (not d or any(os.path.dirname(x) == d for x in ws.trees[0])):
                by[nm] = (b"related bystander of %s\n" % b.encode("utf-8", "surrogateescape"), r.choice([0o644, 0o600]))
    for t in ws.trees:
        for p, v in by.items():
            t[p] = v
    threads = r.choice([1, 4])
    mmap = r.random() < 0.5
    args = base_args(threads=threads, backup=r.choice(["never", "always", None]), verbosity="-q") + (["--mmap"] if mmap else []) + ["push", "-a"]
    sig0 = {"driver": "seq" if threads == 1 else "par", "loader": "mmap" if mmap else "read"}
    with Scratch("c15") as scr:
        orig, work = fresh(scr, ws, 0)
        twin = os.path.join(scr, "twin")
        # cp -al of the tree files - of all of them, of some, or of none; a file without a twin is held open by this monitor
        # instead (a reader that opened it before the push): a replaced file then shows link count 0 and the old bytes
        # through that descriptor, a file rewritten in place shows the new bytes
        twin_mode = r.choice(["all", "all", "some", "none"])
        os.makedirs(twin, exist_ok=True)
        held = {}
        for p in ws.trees[0]:
            src = os.path.join(work, p)
            if twin_mode == "all" or (twin_mode == "some" and r.random() < 0.5):
                dst = os.path.join(twin, p)
                os.makedirs(os.path.dirname(dst), exist_ok=True)
                os.link(src, dst)
            elif len(held) < 64:
                held[p] = os.open(os.fsencode(src), os.O_RDONLY)
        # stale rejects of an earlier run where this run will write its own, hard-linked into the twin like every other file
        if ws.fail_at is not None and r.random() < 0.5:
            for rp in expected_rejects(ws, ws.fail_at):
                parent = os.path.dirname(rp)
                if (parent == "" or (any(os.path.dirname(q) == parent for q in ws.trees[ws.fail_at]) and any(os.path.dirname(q) == parent for q in ws.trees[0]))) and r.random() < 0.7:
                    src = os.path.join(os.fsencode(work), rp.encode("utf-8", "surrogateescape"))
                    dst = os.path.join(os.fsencode(twin), rp.encode("utf-8", "surrogateescape"))
                    with open(src, "wb") as f:
                        f.write(b"--- a/stale\n+++ b/stale\n@@ -1 +1 @@\n-stale\n+STALE\n" * 5)
                    os.makedirs(os.path.dirname(dst), exist_ok=True)
                    os.link(src, dst)
                    res.count("stale-rejects-hard-linked-into-the-twin")
        res.count("twin:%s" % twin_mode)
        before = runner.snapshot(work, with_meta=True)
        twin_before = runner.snapshot(twin, with_meta=True)
        env_extra = None
        faulted = r.random() < 0.3
        if faulted:
            # an output operation of this run fails (unlink, open, write ...): the push may fail, but a hard-linked copy must still not change
            from common import SHIM_SO
            env_extra = {"LD_PRELOAD": SHIM_SO, "FAULTSHIM_ROOT": work, "FAULTSHIM_FAIL_AT": str(r.randint(1, 12)), "FAULTSHIM_ERRNO": str(r.choice([13, 5, 28]))}
        rr, events = run_traced(binary, work, args, os.path.join(scr, "strace.log"), env_extra=env_extra)
        res["evals"] = 1
        held_obs = {}
        for p, fd in held.items():
            st = os.fstat(fd)
            held_obs[p] = (st.st_nlink, os.pread(fd, st.st_size + 1, 0))
            os.close(fd)
        if faulted:
            res.count("runs-with-an-injected-output-fault")
        if rr.timed_out:
            res["inconclusive"] = "watchdog"
            return res
        if rr.crashed():
            res.viol(dict(sig0, **{"class": "crash", "rc": str(rr.rc), "where": cli.crash_site(rr.err)}), "crashed: %s" % rr.err.decode("utf-8", "replace")[-500:], orig, [binary] + args)
            return res
        after = runner.snapshot(work, with_meta=True)
        # 0. files held open by the monitor: the descriptor still shows the original bytes; when the path now holds something
        # else (or nothing) the original inode has no name left
        for p, (nlink, data) in held_obs.items():
            b = before[p]
            a = after.get(p)
            if data != b[1]:
                res.viol(dict(sig0, **{"class": "open-descriptor-sees-other-content"}), "%s was opened before the push; the descriptor now reads %d bytes that differ from the original %d: the file was written in place" % (p, len(data), len(b[1])),
                         orig, [binary] + args)
                return res
            changed = a is None or a[0] != "f" or a[1] != b[1] or a[2] != b[2]
            if changed and nlink != 0:
                res.viol(dict(sig0, **{"class": "changed-file-keeps-inode", "how": "link-count-of-the-held-inode"}), "%s changed but the inode opened before the push still has %d name(s)" % (p, nlink), orig, [binary] + args)
                return res
            res.count("held-open-files-verified")
            if changed:
                res.count("held-open-files-replaced")
        twin_after = runner.snapshot(twin, with_meta=True)
        res.count("syscalls-audited", len(events))
        # 1. the twin keeps content and mode
        for p, v in twin_before.items():
            w = twin_after.get(p)
            if v[0] == "f" and (w is None or w[1] != v[1] or w[2] != v[2]):
                res.viol(dict(sig0, **{"class": "hard-linked-copy-changed", "what": "content" if (w is None or w[1] != v[1]) else "mode"}),
                         "twin %s changed: the file was edited in place" % p, orig, [binary] + args)
                return res
        # 2. changed files have fresh inodes
        replaced = 0
        for p, v in after.items():
            if v[0] != "f" or p.startswith(".pc") or p.startswith("patches/") or p == "series":
                continue
            b = before.get(p)
            if b and b[0] == "f" and (b[1] != v[1] or b[2] != v[2]):
                replaced += 1
                if b[3] == v[3]:
                    res.viol(dict(sig0, **{"class": "changed-file-keeps-inode"}), "%s changed but has the same inode" % p, orig, [binary] + args)
                    return res
        # 3. bystanders: untouched in every respect
        named = set()
        for p_ in ws.patches:
            for op in p_.ops:
                named.update([op.path, op.new_path, op.path + ".orig"])
        for p, b in before.items():
            if b[0] != "f" or p in named or p.startswith(".pc") or p.startswith("patches/") or p == "series" or p.endswith(".rej"):
                continue
            a = after.get(p)
            if a != b:
                res.viol(dict(sig0, **{"class": "bystander-touched", "how": "snapshot"}), "file %s is not named by any patch but changed (inode/mtime/nlink/content): %r -> %r" % (p, b[2:], a[2:] if a else None), orig, [binary] + args)
                return res
            full = os.path.join(work, p)
            hits = [e for e in events if (e.write_class or e.call in ("unlink", "unlinkat")) and full in e.paths]
            if hits:
                res.viol(dict(sig0, **{"class": "bystander-touched", "how": hits[0].call}), "file %s is not named by any patch but: %s" % (p, hits[0].raw[:200]), orig, [binary] + args)
                return res
            res.count("bystanders-verified")
        res.count("held-runs")
        if replaced:
            res.count("files-replaced", replaced)
            res["nontrivial"].append(case_key(cli.ws_shape_key(ws), threads, mmap))
        if rr.rc == 1:
            res.count("failing-series-(files-resaved-after-rollback)")
        if seed % 100 == 13:
            res["sample"] = {"workspace": ws.describe(), "args": args, "exit": rr.rc, "files_replaced": replaced, "syscalls_seen": len(events)}
    return res


def cli_c15(v, tier, seed):
    from common import build_shim
    build_shim()
    b = rq()
    cli.pool_run(v, c15_worker, [(seed * 1_000_003 + i, b) for i in range(n(tier, 3000, 40000))])


# ----------------------------------------------------------------------------
# C19 names escaping the working tree


ESCAPES = [
    # (name as written after the a/ b/ prefix handling, strip, description); {ABS} = absolute path of a decoy
    ("../decoy.txt", 0, "dotdot-p0"),
    ("a/../../decoy.txt", 1, "dotdot-survives-p1"),
    ("x/a/../../decoy.txt", 2, "dotdot-survives-p2"),
    ("a/src/../../../decoy.txt", 1, "inner-dotdot"),
    ("a/./../decoy.txt", 1, "dot-dotdot"),
    ("{ABS}", 0, "absolute-p0"),
    ("../dir/new-outside.txt", 0, "dotdot-create-in-dir"),
    ("a/../../new-outside.txt", 1, "dotdot-create"),
    ("a/../../dir/..", 1, "trailing-dotdot"),
    ("a/sub/../../../dir/decoy2.txt", 1, "deep-dotdot"),
    # not escaping by themselves (a run of slashes is one separator, so the stripped name is a relative path inside the
    # tree), but one careless step away from an absolute name: only "nothing outside is touched" is asserted for these
    ("a//{ABS}", 1, "double-slash-before-absolute"),
    ("x/a//{ABS}", 2, "double-slash-before-absolute-p2"),
    ("a///{ABS}", 1, "triple-slash-before-absolute"),
    ("//{ABS}", 0, "leading-double-slash"),
]
NOT_ESCAPING = ("double-slash-before-absolute", "double-slash-before-absolute-p2", "triple-slash-before-absolute")


def c19_worker(item):
    import stracelog
    seed, binary = item
    r = random.Random(seed * 86028121 + 19)
    res = Res()
    cfg = wsgen.GenConfig(p_fail=0.0, max_patches=r.choice([1, 2, 4]), allow_strip=False)
    ws = wsgen.generate(seed, cfg)
    esc_name, strip, label = r.choice(ESCAPES)
    where = r.choice(["both", "old-only", "new-only", "git-line", "rename-to", "rename-from"])
    action = r.choice(["modify", "create", "delete", "create-two-names", "delete-two-names"])
    quoted = r.random() < 0.3
    threads = r.choice([1, 4])
    pos = r.randint(0, len(ws.patches))
    with Scratch("c19") as scr:
        outer = os.path.join(scr, "outer")
        os.makedirs(os.path.join(outer, "dir"))
        decoys = {"decoy.txt": b"decoy line 1\ndecoy line 2\ndecoy line 3\n", "dir/decoy2.txt": b"decoy line 1\ndecoy line 2\ndecoy line 3\n", "abs.txt": b"decoy line 1\ndecoy line 2\ndecoy line 3\n"}
        for p, d in decoys.items():
            with open(os.path.join(outer, p), "wb") as f:
                f.write(d)
        work = os.path.join(outer, "ws")
        abs_decoy = os.path.join(outer, "abs.txt")
        name = esc_name.replace("/{ABS}", abs_decoy).replace("{ABS}", abs_decoy)

        def q(nm):
            b = nm.encode("utf-8", "surrogateescape")
            if quoted:
                return b'"' + b"".join(b"\\%03o" % c if c in (0x2e, 0x22, 0x5c, 0x09) else bytes([c]) for c in b) + b'"'
            import udiff
            return udiff.quote_name(b)

        inside_path = "inside-%d.txt" % seed
        earlier = sorted(set(q for p_ in ws.patches[:pos] for o in p_.ops for q in (o.path, o.new_path)))
        if earlier and r.random() < 0.4:
            # a name that an earlier patch of the same push already touched (its file is loaded, maybe deleted, by then)
            inside_path = r.choice(earlier)
            res.count("inside-name-already-touched-by-an-earlier-patch")
        inside = ("a/" if strip == 1 else "x/a/" if strip == 2 else "") + inside_path
        old_n, new_n = name, name
        if where == "old-only":
            new_n = inside
        elif where == "new-only":
            old_n = inside
        body_mod = b"@@ -1,3 +1,3 @@\n decoy line 1\n-decoy line 2\n+PWNED\n decoy line 3\n"
        body_create = b"@@ -0,0 +1,2 @@\n+PWNED\n+created outside\n"
        body_delete = b"@@ -1,3 +0,0 @@\n-decoy line 1\n-decoy line 2\n-decoy line 3\n"
        if where in ("rename-to", "rename-from"):
            # rename between an inside file and an outside name
            victim = sorted(ws.trees[pos])[0] if ws.trees[pos] else None
            if victim is None:
                return res
            pre = ("a/" if strip >= 1 else "")
            if strip == 2:
                pre = "x/a/"
            inside_n = pre + victim
            if where == "rename-to":
                text = b"diff --git " + q(inside_n) + b" " + q(name) + b"\nrename from x\nrename to y\n"
            else:
                text = b"diff --git " + q(name) + b" " + q(inside_n) + b"\nrename from x\nrename to y\n"
        elif where == "git-line":
            text = b"diff --git " + q(old_n) + b" " + q(new_n) + b"\nold mode 100644\nnew mode 100755\n"
        else:
            if action == "modify":
                text = b"--- " + q(old_n) + b"\n+++ " + q(new_n) + b"\n" + body_mod
            elif action == "create-two-names":
                # creation / deletion shaped hunks with two real names (the "same name on both sides" dialect): whichever of the
                # two the tool picks, the escaping one must make it refuse
                text = b"--- " + q(old_n) + b"\n+++ " + q(new_n) + b"\n" + body_create
            elif action == "delete-two-names":
                text = b"--- " + q(old_n) + b"\n+++ " + q(new_n) + b"\n" + body_delete
            elif action == "create":
                text = b"--- /dev/null\n+++ " + q(new_n if where != "old-only" else old_n) + b"\n" + body_create
            else:
                text = b"--- " + q(old_n if where != "new-only" else new_n) + b"\n+++ /dev/null\n" + body_delete
        evil = wsgen.PatchSpec("evil.patch", [], strip=strip)
        evil.text = text
        evil.series_line = "evil.patch" + ("" if strip == 1 else " -p%d" % strip)
        patches = ws.patches[:pos] + [evil] + ws.patches[pos:]
        ws2 = wsgen.Workspace()
        ws2.t0, ws2.patches, ws2.trees = ws.t0, patches, ws.trees
        wsgen.materialize(ws2, work, applied=0)
        outside_before = runner.snapshot(outer, with_meta=True, skip=("ws",))
        args = base_args(threads=threads, backup=r.choice(["never", None, "always"]), verbosity=r.choice(["-q", None])) + ["push", "-a"]
        sig0 = {"driver": "seq" if threads == 1 else "par", "spelling": label, "where": where}
        rr, events = run_traced(binary, work, args, os.path.join(scr, "strace.log"))
        res["evals"] = 1
        res.count("syscalls-audited", len(events))
        if rr.timed_out:
            res["inconclusive"] = "watchdog"
            return res
        outside_after = runner.snapshot(outer, with_meta=True, skip=("ws",))
        argv = [binary] + args
        extra = {"evil_patch": text.decode("latin-1"), "series_line": evil.series_line, "position": pos}
        if rr.crashed():
            res.viol(dict(sig0, **{"class": "crash", "rc": str(rr.rc), "where_": cli.crash_site(rr.err)}), "crashed: %s" % rr.err.decode("utf-8", "replace")[-400:], work, argv, extra)
            return res
        if outside_before != outside_after:
            ch = sorted(p for p in set(outside_before) | set(outside_after) if outside_before.get(p) != outside_after.get(p))
            how = "created" if any(p not in outside_before for p in ch) else ("deleted" if any(p not in outside_after for p in ch) else "modified")
            res.viol(dict(sig0, **{"class": "outside-file-" + how}), "outside the working tree: %s %s (patch %r)" % (how, ch[:4], text[:200]), work, argv, extra)
            return res
        wc = [e for e in events if (e.write_class or e.call in ("unlink", "unlinkat")) and e.paths and not any(stracelog.under(p, work) for p in e.paths)
              and not any(p.startswith("/dev/") or p.startswith("/proc/") for p in e.paths)]
        if wc:
            res.viol(dict(sig0, **{"class": "write-class-syscall-outside", "call": wc[0].call}), "write-class calls outside the working tree: %s" % [e.raw[:160] for e in wc[:3]], work, argv, extra)
            return res
        if label in NOT_ESCAPING:
            res.count("held-runs")
            res.count("spelling:%s" % label)
            res["nontrivial"].append(case_key(label, where, action, quoted, threads, pos, cli.ws_shape_key(ws)))
            return res
        if rr.rc != 1:
            res.viol(dict(sig0, **{"class": "escaping-name-accepted", "rc": str(rr.rc)}), "exit status %s for a series containing %r" % (rr.rc, text[:200]), work, argv, extra)
            return res
        obs = cli.observe(work)
        applied = obs["applied"] or []
        j = len(applied)
        ok = j <= pos and applied == [p.name for p in patches[:j]]
        diffs = []
        if ok:
            diffs = runner.tree_diff(obs["tree"], obs["dirs"], ws.trees[j], check_dirs=False)
            ok = not diffs
        if not ok:
            res.viol(dict(sig0, **{"class": "unclean-failure"}), "after the refused patch the tree is not the result of the first %d patches (applied-patches %r, offending patch at %d): %s; stderr %s" % (
                j, applied, pos, diffs[:3], rr.err.decode("utf-8", "replace")[-300:]), work, argv, extra)
            return res
        res.count("held-runs")
        res.count("spelling:%s" % label)
        res.count("where:%s" % where)
        res["nontrivial"].append(case_key(label, where, action, quoted, threads, pos, cli.ws_shape_key(ws)))
        if seed % 100 == 17:
            res["sample"] = {"evil_patch": text.decode("latin-1"), "series_line": evil.series_line, "position_in_series": pos, "args": args, "exit": rr.rc,
                             "applied": applied, "stderr_tail": rr.err.decode("utf-8", "replace")[-200:]}
    return res


def cli_c19(v, tier, seed):
    b = rq()
    cli.pool_run(v, c19_worker, [(seed * 1_000_003 + i, b) for i in range(n(tier, 3000, 40000))])


# ----------------------------------------------------------------------------
# C14 presentation / loader options never change the result


C14_VARIANTS = [["--mmap"], [], ["-v"], ["-vv"], ["--color", "always"], ["--color", "never"], ["--stats"], ["-A", "multiapply"],
                ["--mmap", "-v", "--stats"], ["-vv", "--color", "always", "-A", "multiapply"], ["--mmap", "-A", "multiapply", "--color", "always"]]


def c14_worker(item):
    seed, binary = item
    r = random.Random(seed * 982451653 + 14)
    res = Res()
    shape = r.choice(["plain", "plain", "plain", "empty-source", "empty-patch", "empty-series", "all-applied", "goal-applied", "symlinked-source", "symlinked-patch",
                      "many-files-low-fd-limit", "page-multiple-source", "rename-over-a-file-the-failing-patch-emptied"])
    cfg = wsgen.GenConfig(p_fail=0.5, max_patches=r.choice([1, 3, 6]))
    cfg.p_early_poison = 0.4
    ws = wsgen.generate(seed, cfg)
    first = 0
    goal = ["-a"]
    nofile = None
    if shape == "many-files-low-fd-limit":
        # more files and patches than the process may have open at once: a loader must not hold on to descriptors
        nofile = 48
        ws = wsgen.generate_long(seed, r.randint(70, 90), nfiles=60, p_fail=0.2)
    if shape == "page-multiple-source":
        # files whose size is an exact multiple of the page size (nothing after the last byte of a mapping)
        cfg2 = wsgen.GenConfig(p_fail=0.3, max_patches=r.choice([1, 3]), max_files=3)
        cfg2.kinds = ["modify"] * 6 + ["delete", "truncate", "chmod"]
        ws = wsgen.generate(seed, cfg2)
        t0 = {}
        for pth, (data, mode) in ws.trees[0].items():
            page = r.choice([4096, 8192])
            # prepend a padding line so that the patches (exact diffs of the unpadded content) still apply with an offset... no:
            # keep ground truth out of it (C14 is a differential) and pad at the END with a line of the right length
            padlen = (-(len(data) + 1)) % page
            pad = b"p" * padlen + b"\n"
            if not data.endswith(b"\n") and data:
                data = data + b"\n"
                padlen = (-(len(data) + 1)) % page
                pad = b"p" * padlen + b"\n"
            t0[pth] = (data + pad, mode)
        ws.trees[0] = t0
    if shape == "rename-over-a-file-the-failing-patch-emptied":
        # directed (D35): the failing patch empties b with a hunk that is not creation/deletion shaped ('+N,0' with N > 0), then
        # renames a over the now empty b with a hunk that fails - the diagnostics must cope like the rollback does
        nb, na = r.randint(1, 4), r.randint(3, 6)
        b_lines = [b"b line %d\n" % i for i in range(nb)]
        a_lines = [b"a line %d\n" % i for i in range(na)]
        d_ = r.choice(["", "sub/"])
        text = (b"--- a/%sb\n+++ b/%sb\n@@ -1,%d +%d,0 @@\n" % (d_.encode(), d_.encode(), nb, r.randint(2, 9)) + b"".join(b"-" + l for l in b_lines)
                + b"diff --git a/%sa b/%sb\nrename from %sa\nrename to %sb\n--- a/%sa\n+++ b/%sb\n@@ -1,3 +1,3 @@\n a line 0\n-NO SUCH LINE\n+changed\n a line 2\n" % ((d_.encode(),) * 6))
        pt = wsgen.PatchSpec("pzz-empty-then-rename.patch", [], 1, False, True)
        pt.text = text
        pt.series_line = pt.name
        pt.prefix_style = "plain"
        extra_files = {d_ + "a": (b"".join(a_lines), 0o644), d_ + "b": (b"".join(b_lines), r.choice([0o644, 0o600]))}
        if ws.fail_at is not None:
            ws.patches = ws.patches[:ws.fail_at]
            ws.trees = ws.trees[:ws.fail_at + 1]
        for t in ws.trees:
            t.update(extra_files)
        ws.patches.append(pt)
        ws.fail_at = len(ws.patches) - 1
    if shape == "empty-source":
        # an existing zero-length file that a patch fills, and one that is only renamed / chmod-ed
        for t in ws.trees:
            t["empty.txt"] = (b"", 0o644)
        op = wsgen.Op("modify", "empty.txt", pre=b"", post=b"filled\nin\n", pre_mode=0o644, post_mode=0o644)
        op.style = "samename"
        p = wsgen.PatchSpec("pzz-fill.patch", [op], 1, False, False)
        wsgen.render_patch(p, r)
        if ws.fail_at is None:
            ws.patches.append(p)
            nt = dict(ws.trees[-1])
            nt["empty.txt"] = (op.post, 0o644)
            ws.trees.append(nt)
    elif shape == "empty-patch":
        p = wsgen.PatchSpec("pzz-empty.patch", [], 1, False, False)
        p.text = b""
        p.series_line = p.name
        pos = r.randint(0, len(ws.patches))
        if ws.fail_at is None or pos <= ws.fail_at:
            ws.patches.insert(pos, p)
            if ws.fail_at is not None:
                ws.fail_at += 1
            ws.trees.insert(pos + 1, dict(ws.trees[pos])) if pos < len(ws.trees) else None
    elif shape == "empty-series":
        ws.patches = []
        ws.trees = ws.trees[:1]
        ws.fail_at = None
    elif shape in ("all-applied", "goal-applied"):
        if ws.fail_at is not None:
            ws.patches = ws.patches[:ws.fail_at]
            ws.trees = ws.trees[:ws.fail_at + 1]
            ws.fail_at = None
        first = len(ws.patches)
        if shape == "goal-applied" and ws.patches:
            goal = [r.choice(ws.patches).name]
        elif r.random() < 0.5:
            goal = [] if r.random() < 0.5 else ["2"]
    threads = r.choice([1, 4])
    if shape in ("symlinked-source", "symlinked-patch") and ws.fail_at is not None:
        # with a failing series the parallel driver may or may not run ahead into later patches and re-save their
        # (unchanged) files, which turns a symbolic link into a regular file: that depends on the schedule, not on
        # the options under test, so the symlink shapes use the deterministic driver when the series fails
        threads = 1
    backup = r.choice(["always", None, "never"])
    variant = r.choice(C14_VARIANTS)
    if r.random() < 0.3:
        variant = sorted(set(sum(r.sample(C14_VARIANTS, 2), [])), key=lambda x: x)
        # repair option/value pairs broken by the set union
        variant = [x for x in variant if x not in ("always", "never", "multiapply", "--color", "-A")]
    fuzz = ["-F", str(r.choice([1, 2, 3]))] if r.random() < 0.1 else []
    base = base_args(threads=threads, backup=backup, verbosity="-q", extra=fuzz) + ["push"] + goal
    var = base_args(threads=threads, backup=backup, verbosity=None, extra=fuzz) + list(variant) + ["push"] + goal
    sig0 = {"driver": "seq" if threads == 1 else "par", "shape": shape}
    with Scratch("c14") as scr:
        orig, w1 = fresh(scr, ws, first)
        if shape in ("symlinked-source", "symlinked-patch"):
            # the file to patch (or the patch file) is a symbolic link to a file kept elsewhere in the workspace
            import shutil as _sh
            _sh.rmtree(w1)
            pool = os.path.join(orig, "pool")
            os.makedirs(pool, exist_ok=True)
            cands = sorted(ws.trees[first]) if shape == "symlinked-source" else ["patches/" + p.name for p in ws.patches]
            for k, rel in enumerate(cands[:3]):
                src = os.path.join(orig, rel)
                if os.path.isfile(src) and not os.path.islink(src):
                    dst = os.path.join(pool, "real-%d" % k)
                    os.rename(src, dst)
                    os.symlink(os.path.relpath(dst, os.path.dirname(src)), src)
            runner.copy_ws(orig, w1)
        w2 = os.path.join(scr, "w2")
        runner.copy_ws(orig, w2)
        r1 = runner.run_rq(binary, w1, base, nofile=nofile)
        r2 = runner.run_rq(binary, w2, var, nofile=nofile)
        res["evals"] = 1
        if r1.timed_out or r2.timed_out:
            res["inconclusive"] = "watchdog"
            return res
        for rr, a in ((r1, base), (r2, var)):
            if rr.crashed():
                res.viol(dict(sig0, **{"class": "crash", "rc": str(rr.rc), "where": cli.crash_site(rr.err), "options": " ".join(sorted(set(variant))) if rr is r2 else "-q"}),
                         "crash with %s: %s" % (a, rr.err.decode("utf-8", "replace")[-400:]), orig, [binary] + a)
                return res
        o1, o2 = cli.observe(w1), cli.observe(w2)
        what = None
        if r1.rc != r2.rc:
            what = ("exit-status", "%s vs %s" % (r1.rc, r2.rc))
        elif o1["tree"] != o2["tree"] or o1["dirs"] != o2["dirs"]:
            dp = sorted(p for p in set(o1["tree"]) | set(o2["tree"]) if o1["tree"].get(p) != o2["tree"].get(p))
            what = ("tree", "%s" % dp[:4])
        elif o1["pc"] != o2["pc"]:
            dp = sorted(p for p in set(o1["pc"]) | set(o2["pc"]) if o1["pc"].get(p) != o2["pc"].get(p))
            what = ("pc", "%s" % dp[:4])
        elif o1["rej"] != o2["rej"]:
            what = ("rejects", "%s vs %s" % (sorted(o1["rej"]), sorted(o2["rej"])))
        opt_key = " ".join(x for x in variant if x.startswith("-")) or "default-verbosity"
        if what:
            res.viol(dict(sig0, **{"class": "option-changes-result", "what": what[0], "options": opt_key}),
                     "-q vs %s: %s differs: %s; stderr(-q) %s | stderr(variant) %s" % (variant, what[0], what[1], r1.err.decode("utf-8", "replace")[-200:], r2.err.decode("utf-8", "replace")[-200:]),
                     orig, [binary] + var, extra={"baseline": base})
            return res
        res.count("held-runs")
        res.count("shape:%s" % shape)
        res.count("options:%s" % opt_key)
        ntouched = sum(1 for p in set(o1["tree"]) if o1["tree"].get(p) != ws.trees[first].get(p, (None,))[0:1])
        if r1.rc == 1 or len(ws.patches) - first >= 1:
            res["nontrivial"].append(case_key(cli.ws_shape_key(ws), shape, tuple(variant), threads, backup, tuple(goal)))
        if r1.rc == 1:
            res.count("failing-series")
            if ws.fail_at is not None and ws.patches[ws.fail_at].early_poison:
                res.count("failing-file-patch-followed-by-another-for-the-same-file")
        if seed % 300 == 19:
            res["sample"] = {"workspace": ws.describe(), "shape": shape, "baseline": base, "variant": var, "exit": r1.rc}
        del ntouched
    return res


def cli_c14(v, tier, seed):
    b = rq()
    cli.pool_run(v, c14_worker, [(seed * 1_000_003 + i, b) for i in range(n(tier, 8000, 120000))])


# ----------------------------------------------------------------------------
# C16 series options and file-name resolution


def spell_series_line(r, p):
    """random accepted spelling of the options of a series entry"""
    opts = []
    if p.strip != 1 or r.random() < 0.3:
        s = r.choice(["-p%d", "-p %d", "--strip=%d", "--strip %d"]) % p.strip
        opts.append(s)
    if p.reverse:
        opts.append(r.choice(["-R", "--reverse"]))
    r.shuffle(opts)
    sep = r.choice([" ", "  ", "\t", " \t "])
    line = r.choice(["", "", " ", "\t"]) + p.name + (sep + sep.join(opts) if opts else "") + r.choice(["", "", " ", "\t "])
    return line


def c16_options_case(r, seed, binary, res):
    cfg = wsgen.GenConfig(p_fail=0.25, max_patches=r.choice([2, 4, 6]))
    ws = wsgen.generate(seed, cfg)
    if r.random() < 0.25:
        # patch names with a '#' inside (only a '#' at the start of a line begins a comment)
        for p in ws.patches:
            if r.random() < 0.5:
                d, b = os.path.split(p.name)
                p.name = os.path.join(d, "bug#%d-%s" % (r.randint(1, 99), b))
        res.count("series-with-#-inside-patch-names")
    lines = []
    for p in ws.patches:
        if r.random() < 0.3:
            lines.append(r.choice(["# a comment", "#", "", "   ", "# p99-not-a-patch.patch -p0", "\t"]))
        lines.append(spell_series_line(r, p))
    if r.random() < 0.3:
        lines.append("# trailing comment")
    threads = r.choice([1, 4])
    args = base_args(threads=threads, backup=r.choice(["never", None]), verbosity="-q") + ["push", "-a"]
    split = r.random() < 0.3
    with Scratch("c16") as scr:
        orig, work = fresh(scr, ws, 0)
        for d in (orig, work):
            with open(os.path.join(d, "series"), "w") as f:
                f.write("\n".join(lines) + "\n")
        if split:
            # the options must also be honoured (and the applied entries recognised) across separate invocations
            res.count("options-runs-split-into-single-pushes")
            one = base_args(threads=threads, backup="never", verbosity="-q") + ["push"]
            for _ in range(len(ws.patches) - 1):
                rr0 = runner.run_rq(binary, work, one)
                if rr0.rc != 0:
                    break
        rr = runner.run_rq(binary, work, args if not split else base_args(threads=threads, backup="never", verbosity="-q") + ["push", "-a"])
        res["evals"] += 1
        sig0 = {"part": "options", "driver": "seq" if threads == 1 else "par"}
        out = cli.check_push_outcome(res, ws, work, rr, 0, len(ws.patches), sig0, [binary] + args)
        if out:
            res.count("held-runs")
            res.count("options-runs")
            nd = sum(1 for p in ws.patches if p.strip != 1 or p.reverse)
            if nd:
                res["nontrivial"].append(case_key("opt", tuple(lines), cli.ws_shape_key(ws), threads))
                res.count("series-entries-with-non-default-options", nd)
            for p in ws.patches:
                res.count("strip=%d" % p.strip)
                if p.reverse:
                    res.count("reverse")
            if seed % 200 == 23:
                res["sample"] = {"series_file": lines, "args": args, "exit": rr.rc, "patches": [q.describe() if hasattr(q, "describe") else None for q in []] or ws.describe()["patches"][:3]}


STATES = ["E", "C", "D", "A", "T", "Z"]   # exists / created by p1 / deleted by p1 / absent / emptied by p1 (exists, zero length) / zero length from the start


def c16_names_case(r, seed, binary, res, so=None, sn=None, only_workspace=False):
    so, sn = so or r.choice(STATES), sn or r.choice(STATES)
    old, new = r.choice([("src/thing.c.orig", "src/thing.c"), ("old/name.txt", "new/name.txt"), ("f.old", "f.new"), ("deep/a/b/x.h", "x.h")])
    strip = r.choice([0, 1, 2])
    content = b"l1\nl2\nl3\n"
    t0 = {"keep/other.txt": (b"other\n", 0o644)}
    ops1 = []
    tree1 = dict(t0)

    def setup(name, st):
        if st == "E":
            t0[name] = (content, 0o644)
            tree1[name] = (content, 0o644)
        elif st == "C":
            op = wsgen.Op("create", name, pre=None, post=content, pre_mode=None, post_mode=0o644)
            op.style = "devnull"
            ops1.append(op)
            tree1[name] = (content, 0o644)
        elif st == "D":
            t0[name] = (content, 0o644)
            op = wsgen.Op("delete", name, pre=content, post=None, pre_mode=0o644, post_mode=None)
            op.style = "devnull"
            ops1.append(op)
            tree1.pop(name, None)
        elif st == "T":
            t0[name] = (content, 0o644)
            op = wsgen.Op("truncate", name, pre=content, post=b"", pre_mode=0o644, post_mode=0o644)
            op.style = "samename"
            op.ctx = 0
            ops1.append(op)
            tree1[name] = (b"", 0o644)
        elif st == "Z":
            t0[name] = (b"", 0o644)
            tree1[name] = (b"", 0o644)

    setup(old, so)
    setup(new, sn)
    new_tracked = False
    if sn == "E" and r.random() < 0.4:
        # the new name exists and the first patch changes it (so it is already loaded when the second patch is decided upon,
        # while the old name is only on disk)
        opm = wsgen.Op("modify", new, pre=content, post=content + b"l4 added by p1\n", pre_mode=0o644, post_mode=0o644)
        opm.ctx = 1
        ops1.append(opm)
        tree1[new] = (opm.post, 0o644)
        new_tracked = True
    # p1 always does something
    opk = wsgen.Op("modify", "keep/other.txt", pre=b"other\n", post=b"other\nmore\n", pre_mode=0o644, post_mode=0o644)
    ops1.append(opk)
    tree1["keep/other.txt"] = (opk.post, 0o644)
    p1 = wsgen.PatchSpec("p1-setup.patch", ops1, 1, False, False)
    wsgen.render_patch(p1, r)
    pre_a = wsgen._prefix(strip, "a")
    pre_b = wsgen._prefix(strip, "b")
    ts = b"\t2020-01-01 00:00:00.000000000 +0000" if r.random() < 0.3 else b""
    # the second patch either modifies (needs the content) or has a creation-shaped hunk with two real names (fits a missing
    # file and an existing zero-length one)
    creating = so in ("T", "Z") or sn in ("T", "Z") or r.random() < 0.25
    if creating:
        body = b"@@ -0,0 +1,2 @@\n+fresh\n+note\n"
    else:
        body = b"@@ -1,3 +1,3 @@\n l1\n-l2\n+L2\n l3\n"
    text = b"--- " + (pre_a + old).encode() + ts + b"\n+++ " + (pre_b + new).encode() + ts + b"\n" + body
    p2 = wsgen.PatchSpec("p2-names.patch", [], strip, False, False)
    p2.text = text
    p2.series_line = "p2-names.patch" + ("" if strip == 1 else " -p%d" % strip)
    old_exists = so in ("E", "C", "T", "Z")       # a zero-length file exists
    target = old if old_exists else new
    tstate = so if old_exists else sn
    if creating:
        target_exists = tstate not in ("E", "C")     # "the patch applies": onto nothing or onto an empty file
    else:
        target_exists = tstate in ("E", "C")
    tree2 = dict(tree1)
    if target_exists:
        tree2[target] = (b"fresh\nnote\n" if creating else (b"l1\nL2\nl3\n" + (b"l4 added by p1\n" if (new_tracked and target == new) else b"")), 0o644)
    ws = wsgen.Workspace()
    ws.t0 = t0
    ws.patches = [p1, p2]
    ws.trees = [t0, tree1] + ([tree2] if target_exists else [])
    ws.fail_at = None if target_exists else 1
    ws.seed = seed
    if only_workspace:
        return ws
    mode = r.choice(["single-seq", "single-par", "split"])
    with Scratch("c16n") as scr:
        orig, work = fresh(scr, ws, 0)
        runs = []
        if mode == "split":
            runs = [base_args(threads=r.choice([1, 4]), backup="always", verbosity="-q") + ["push"], base_args(threads=r.choice([1, 4]), backup="always", verbosity="-q") + ["push"]]
        else:
            runs = [base_args(threads=1 if mode == "single-seq" else 4, backup="always", verbosity="-q") + ["push", "-a"]]
        rr = None
        for a in runs:
            rr = runner.run_rq(binary, work, a)
            if rr.timed_out:
                res["inconclusive"] = "watchdog"
                return
            if rr.crashed():
                break
        res["evals"] += 1
        sig0 = {"part": "names", "old": so, "new": sn, "mode": mode}
        # final outcome against ground truth (first=0, whole series)
        out = cli.check_push_outcome(res, ws, work, rr, 0 if mode != "split" else (1 if True else 0), 2 if mode != "split" else 1, sig0, runs[-1]) if mode != "split" else _c16_split_outcome(res, ws, work, rr, sig0, runs)
        if not out:
            return
        obs = out[3]
        if target_exists:
            bk = ".pc/p2-names.patch/" + target
            other = new if target == old else old
            bko = ".pc/p2-names.patch/" + other
            if bk not in obs["pc"]:
                res.viol(dict(sig0, **{"class": "backup-for-chosen-name-missing"}), "expected %s (old %s, new %s); .pc has %s" % (bk, so, sn, sorted(obs["pc"])), orig, runs[-1])
                return
            if bko in obs["pc"]:
                res.viol(dict(sig0, **{"class": "backup-for-other-name"}), "unexpected %s" % bko, orig, runs[-1])
                return
        res.count("held-runs")
        res.count("names-runs")
        res.count("names:old=%s,new=%s" % (so, sn))
        res.count("names-mode:%s" % mode)
        res["nontrivial"].append(case_key("names", so, sn, old, new, strip, mode))
        if seed % 200 == 29:
            res["sample"] = {"old": old, "old_state": so, "new": new, "new_state": sn, "patch": text.decode(), "series_line": p2.series_line,
                             "expected_target": target if target_exists else None, "runs": runs, "exit": rr.rc}


def _c16_split_outcome(res, ws, work, rr, sig0, runs):
    # after two 'push' invocations the state is that of pushing both patches
    return cli.check_push_outcome(res, ws, work, rr, 1, 1, sig0, runs[-1])


def c16_worker(item):
    seed, binary = item
    r = random.Random(seed * 472882027 + 16)
    res = Res()
    if r.random() < 0.5:
        c16_options_case(r, seed, binary, res)
    else:
        c16_names_case(r, seed, binary, res)
    return res


def cli_c16(v, tier, seed):
    b = rq()
    cli.pool_run(v, c16_worker, [(seed * 1_000_003 + i, b) for i in range(n(tier, 10000, 120000))])


# ----------------------------------------------------------------------------
# C17 inconsistent state or arguments are refused cleanly


def c17_worker(item):
    seed, binary = item
    r = random.Random(seed * 553105243 + 17)
    res = Res()
    cfg = wsgen.GenConfig(p_fail=0.0, max_patches=r.choice([1, 2, 3, 4, 6]))
    ws = wsgen.generate(seed, cfg)
    names = [p.name for p in ws.patches]
    kind = r.choice(["state", "state", "goal", "goal", "badpatch", "badpatch", "bignum"])
    threads = r.choice([1, 4])
    verbosity = r.choice(["-q", None])
    first = r.randint(0, len(names))
    goal = ["-a"]
    applied_override = None
    expect_refusal = True
    what = None
    with Scratch("c17") as scr:
        if kind == "state":
            how = r.choice(["longer", "longer-unknown", "reordered", "edited", "duplicated", "unknown-first", "garbage-line"])
            a = names[:first]
            if how == "longer":
                a = names + ["zz-extra-%d.patch" % i for i in range(r.randint(1, 3))]
            elif how == "longer-unknown":
                a = names[:first] + ["not-in-series.patch"] * (len(names) - first + 1)
            elif how == "reordered" and len(names) >= 2:
                a = names[:max(first, 2)]
                i = r.randrange(len(a) - 1)
                a[i], a[i + 1] = a[i + 1], a[i]
            elif how == "edited" and a:
                i = r.randrange(len(a))
                a = list(a)
                a[i] = a[i] + ".edited"
            elif how == "duplicated" and a and len(names) >= 2:
                i = r.randrange(len(a))
                a = a[:i + 1] + [a[i]] + a[i + 1:]
                if a == names[:len(a)]:
                    a = None
            elif how == "unknown-first":
                a = ["completely-unknown.patch"] + names[:first]
            elif how == "garbage-line" and names:
                a = names[:first] + ["\x00\xff garbage"] if first < len(names) else None
            else:
                a = None
            if a is None or a == names[:len(a)]:
                return res
            applied_override = a
            what = "state:" + how
            tree_idx = min(first, len(names))
        elif kind == "goal":
            how = r.choice(["unknown-name", "applied-name", "applied-name-all-applied", "number-too-big-to-parse", "similar-name"])
            tree_idx = first
            if how == "unknown-name":
                goal = ["no-such.patch"]
            elif how == "applied-name":
                if first == 0:
                    return res
                goal = [names[r.randrange(first)]]
            elif how == "applied-name-all-applied":
                first = len(names)
                tree_idx = first
                if not names:
                    return res
                goal = [r.choice(names)]
            elif how == "number-too-big-to-parse":
                goal = ["18446744073709551616"]
            else:
                if not names:
                    return res
                goal = [names[0][:-1]]
            if how != "number-too-big-to-parse" and r.random() < 0.3:
                # the goal together with -a (the argument decides, -a does not make a bad goal acceptable)
                goal = (["-a"] + goal) if r.random() < 0.5 else (goal + ["-a"])
                res.count("goal-cases-with--a-as-well")
            what = "goal:" + how
        elif kind == "badpatch":
            how = r.choice(["missing", "is-a-directory", "truncated-hunk", "bad-header", "binary", "missing-filename"])
            if first >= len(names):
                return res
            pos = r.randrange(first, len(names))
            what = "badpatch:" + how
            tree_idx = first
        else:
            # huge but parseable counts are not refusals: they must behave like 'as many as there are'
            expect_refusal = False
            goal = [r.choice(["18446744073709551615", "9223372036854775808", "18446744073709551614", "4294967296", "0"])]
            what = "bignum"
            tree_idx = first
        orig = os.path.join(scr, "ws.orig")
        work = os.path.join(scr, "ws")
        wsgen.materialize(ws, orig, applied=tree_idx if kind != "state" else min(first, len(names)))
        if applied_override is not None:
            os.makedirs(os.path.join(orig, ".pc"), exist_ok=True)
            with open(os.path.join(orig, ".pc", "applied-patches"), "wb") as f:
                f.write(b"".join(x.encode("latin-1", "replace") + b"\n" for x in applied_override))
        if kind == "badpatch":
            pf = os.path.join(orig, "patches", names[pos])
            if how == "missing":
                os.unlink(pf)
            elif how == "is-a-directory":
                os.unlink(pf)
                os.mkdir(pf)
            else:
                data = open(pf, "rb").read()
                bad = {"truncated-hunk": b"--- a/f.c\n+++ b/f.c\n@@ -1,5 +1,5 @@\n context\n-old\n",
                       "bad-header": b"--- a/f.c\n+++ b/f.c\n@@ -x,5 +1,5 @@\n context\n",
                       "binary": b"diff --git a/bin b/bin\nindex 123..456\nGIT binary patch\nliteral 5\nabcde\n",
                       "missing-filename": b"--- /dev/null\n+++ /dev/null\n@@ -1 +1 @@\n-a\n+b\n"}[how]
                with open(pf, "wb") as f:
                    f.write(data + bad if r.random() < 0.5 else bad + data)
        runner.copy_ws(orig, work)
        args = base_args(threads=threads, backup=r.choice([None, "always"]), verbosity=verbosity) + ["push"] + goal
        before = runner.snapshot(work, with_meta=True)
        run_cwd = work
        if r.random() < 0.2:
            # the working directory named with -d from its parent, in relative and absolute spellings
            run_cwd = os.path.dirname(work)
            bn = os.path.basename(work)
            args = ["-d", r.choice([bn, bn + "/", "./" + bn, work, work + "/"])] + args
            res.count("runs-with--d")
        rr = runner.run_rq(binary, run_cwd, args)
        after = runner.snapshot(work, with_meta=True)
        res["evals"] = 1
        sig0 = {"case": what, "driver": "seq" if threads == 1 else "par", "verbosity": verbosity or "default"}
        argv = [binary] + args
        if rr.timed_out:
            res["inconclusive"] = "watchdog"
            return res
        if rr.crashed():
            res.viol(dict(sig0, **{"class": "crash", "rc": str(rr.rc), "where": cli.crash_site(rr.err)}), "crash: %s" % rr.err.decode("utf-8", "replace")[-400:], orig, argv)
            return res
        if expect_refusal:
            if rr.rc != 1:
                res.viol(dict(sig0, **{"class": "not-refused", "rc": str(rr.rc)}), "exit status %s; stdout %s" % (rr.rc, rr.out.decode("utf-8", "replace")[-200:]), orig, argv)
                return res
            if not rr.err.strip():
                res.viol(dict(sig0, **{"class": "no-message"}), "exit 1 without a message on stderr", orig, argv)
                return res
            if before != after:
                ch = sorted(p for p in set(before) | set(after) if before.get(p) != after.get(p))
                res.viol(dict(sig0, **{"class": "refusal-changed-something"}), "changed: %s; stderr %s" % (ch[:5], rr.err.decode("utf-8", "replace")[-200:]), orig, argv)
                return res
            res.count("refusals-verified")
        else:
            count = int(goal[0])
            out = cli.check_push_outcome(res, ws, work, rr, first, min(count, len(names)), sig0, argv)
            if not out:
                return res
            res.count("huge-counts-verified")
        res.count("held-runs")
        res.count("case:%s" % what)
        res["nontrivial"].append(case_key(what, first, tuple(goal), threads, verbosity, cli.ws_shape_key(ws)))
        if seed % 200 == 31:
            res["sample"] = {"case": what, "series": names, "applied_patches_file": applied_override if applied_override is not None else names[:tree_idx], "args": args,
                             "exit": rr.rc, "stderr": rr.err.decode("utf-8", "replace")[-200:]}
    return res


def cli_c17(v, tier, seed):
    b = rq()
    cli.pool_run(v, c17_worker, [(seed * 1_000_003 + i, b) for i in range(n(tier, 10000, 120000))])


# ----------------------------------------------------------------------------
# C18 output failures (fault enumeration with the LD_PRELOAD shim)


def read_shim_log(path):
    ops = []
    if not os.path.exists(path):
        return ops
    with open(path, "rb") as f:
        for l in f.read().split(b"\n"):
            parts = l.split(b" ")
            if len(parts) >= 5:
                ops.append({"k": int(parts[0]), "tid": parts[1].decode(), "op": parts[2].decode(), "path": b" ".join(parts[3:-1]).decode("utf-8", "surrogateescape"), "result": parts[-1].decode()})
    return ops


def output_class(path):
    if path.startswith("/.pc/applied-patches"):
        return "applied-patches"
    if path.startswith("/.pc"):
        return "backup"
    if path.endswith(".rej"):
        return "reject"
    return "tree"


def c18_worker(item):
    from common import SHIM_SO
    seed, binary = item
    r = random.Random(seed * 613651349 + 18)
    res = Res()
    cfg = wsgen.GenConfig(p_fail=0.5, max_patches=r.choice([1, 2, 4]), max_files=4, allow_special_names=False)
    cfg.p_long_last_line = r.choice([0.0, 0.0, 0.5])
    ws = wsgen.generate(seed, cfg)
    if r.random() < 0.15 and wsgen.add_nested_emptying(ws, r):
        res.count("shape:nested-directories-emptied")   # several directories to remove in one cleanup
    threads = r.choice([1, 1, 4])
    first = 0
    args = base_args(threads=threads, backup="always", verbosity="-q") + ["push", "-a"]
    names = [p.name for p in ws.patches]
    with Scratch("c18") as scr:
        orig = os.path.join(scr, "ws.orig")
        wsgen.materialize(ws, orig, applied=first)
        base = os.path.join(scr, "base")
        runner.copy_ws(orig, base)
        log0 = os.path.join(scr, "shim0.log")
        env = {"LD_PRELOAD": SHIM_SO, "FAULTSHIM_LOG": log0, "FAULTSHIM_ROOT": base}
        r0 = runner.run_rq(binary, base, args, env_extra=env)
        ops0 = read_shim_log(log0)
        if r0.timed_out or r0.crashed() or not ops0:
            res.count("baseline-unusable")
            return res
        nops = len(ops0)
        res.count("baseline-runs")
        res.count("baseline-output-operations", nops)
        kmax = nops + (2 if threads > 1 else 0)
        faults = []
        for k in range(1, kmax + 1):
            kind0 = ops0[min(k, nops) - 1]["op"]
            faults.append((k, False))
            if kind0 == "write":
                faults.append((k, True))   # the same write as a SHORT write followed by "no more room"
        for k, short in faults:
            work = os.path.join(scr, "w%d%s" % (k, "s" if short else ""))
            runner.copy_ws(orig, work)
            logk = os.path.join(scr, "shim%d%s.log" % (k, "s" if short else ""))
            kind0 = ops0[min(k, nops) - 1]["op"]
            err = {"open": 28, "write": 28, "mkdir": 28}.get(kind0, r.choice([13, 5]))
            env = {"LD_PRELOAD": SHIM_SO, "FAULTSHIM_LOG": logk, "FAULTSHIM_ROOT": work, "FAULTSHIM_FAIL_AT": str(k), "FAULTSHIM_ERRNO": str(err)}
            if short:
                env["FAULTSHIM_SHORT"] = "1"
            rr = runner.run_rq(binary, work, args, env_extra=env)
            res["evals"] += 1
            ops = read_shim_log(logk)
            hit = [o for o in ops if o["result"].startswith("FAIL")]
            if not hit:
                res.count("fault-index-beyond-the-run's-operations")
                shutil_rm(work)
                continue
            f = hit[0]
            cls = output_class(f["path"])
            sig0 = {"driver": "seq" if threads == 1 else "par", "op": f["op"], "output": cls}
            is_short = f["result"].startswith("FAIL-SHORT")
            if is_short:
                sig0["fault"] = "short-write"
            argv = [binary] + args
            extra = {"fault": f, "fail_at": k, "errno": err, "operations_of_fault_free_run": nops, "short_write": is_short}
            res.count("faults-injected")
            res.count("fault:%s:%s%s" % (f["op"], cls, ":short" if is_short else ""))
            if is_short and int(f["result"].split(":")[1]) >= 8192:
                res.count("short-writes-inside-a-line-longer-than-the-buffer")
            res["nontrivial"].append(case_key(f["op"], cls, threads, cli.ws_shape_key(ws), k, is_short))
            if rr.timed_out:
                res["inconclusive"] = "watchdog"
            elif rr.crashed():
                res.viol(dict(sig0, **{"class": "crash", "rc": str(rr.rc), "where": cli.crash_site(rr.err)}), "crash after an injected %s failure on %s: %s" % (f["op"], f["path"], rr.err.decode("utf-8", "replace")[-300:]), orig, argv, extra)
            elif rr.rc == 0:
                res.viol(dict(sig0, **{"class": "failure-reported-as-success"}), "exit 0 although %s of %s failed with errno %d" % (f["op"], f["path"], err), orig, argv, extra)
            else:
                msg = rr.err.decode("utf-8", "replace")
                base_name = os.path.basename(f["path"])
                named = (base_name and base_name in msg) or (cls == "applied-patches" and "applied" in msg.lower())
                if f["path"] == "/.pc" and "applied" in msg.lower():
                    named = True  # creating .pc on behalf of applied-patches: the message names what was being saved
                if f["op"] in ("mkdir", "rmdir") and not named:
                    # a directory operation: naming the directory or a file in it both count
                    named = any(part and part in msg for part in f["path"].strip("/").split("/"))
                obs_applied = runner.read_applied(work) or []
                new_names = obs_applied[first:]
                if is_short and cls == "applied-patches" and new_names:
                    # the write that was cut short is the one into applied-patches itself: the bytes the kernel took are
                    # in the file, so its last line may be the beginning of the next name (not a patch name, no claim)
                    j = len(new_names) - 1
                    if first + j < len(names) and new_names[j] != names[first + j] and names[first + j].startswith(new_names[j]):
                        new_names = new_names[:j]
                        res.count("applied-patches-cut-inside-a-name-by-the-short-write")
                if not named:
                    res.viol(dict(sig0, **{"class": "message-does-not-name-the-file"}), "%s of %s failed (errno %d); stderr: %s" % (f["op"], f["path"], err, msg[-300:]), orig, argv, extra)
                elif new_names:
                    # recorded patches must be a prefix and all their files must be fully written
                    j = len(new_names)
                    ok = new_names == names[first:first + j]
                    bad = None
                    if ok and first + j < len(ws.trees) + 0:
                        snap = cli.observe(work)
                        want = ws.trees[first + j] if first + j < len(ws.trees) else None
                        if want is not None:
                            touched = set()
                            for p in ws.patches[first:first + j]:
                                for op in p.ops:
                                    touched.update([op.path, op.new_path])
                            for path in touched:
                                w = want.get(path)
                                g = snap["tree"].get(path)
                                # a later patch may have changed the file further; only absence/presence and, when no later patch touches it, content are decidable
                                later = any(path in (o.path, o.new_path) for p in ws.patches[first + j:] for o in p.ops)
                                if later:
                                    continue
                                if (w is None) != (g is None) or (w is not None and g[1] != w[0]):
                                    bad = path
                                    break
                    if not ok or bad:
                        res.viol(dict(sig0, **{"class": "recorded-although-not-fully-written"}), "applied-patches gained %r; file %s is not in the state after those patches" % (new_names, bad), orig, argv, extra)
                    else:
                        res.count("held-runs")
                else:
                    res.count("held-runs")
            shutil_rm(work)
        if seed % 10 == 3:
            res["sample"] = {"workspace": ws.describe(), "args": args, "operations_of_fault_free_run": [(o["op"], o["path"]) for o in ops0][:40]}
    return res


def shutil_rm(p):
    import shutil
    shutil.rmtree(p, ignore_errors=True)


def cli_c18(v, tier, seed):
    from common import build_shim
    build_shim()
    b = rq()
    cli.pool_run(v, c18_worker, [(seed * 1_000_003 + i, b) for i in range(n(tier, 250, 4000))])


# ----------------------------------------------------------------------------
# hook trace helpers


def read_trace(path):
    ev = []
    if not os.path.exists(path):
        return ev
    with open(path, "r", encoding="utf-8", errors="surrogateescape") as f:
        for l in f:
            parts = l.rstrip("\n").split("\t", 3)
            if len(parts) == 4:
                ev.append({"seq": int(parts[0]), "tid": parts[1], "worker": parts[2], "key": parts[3]})
    return ev


def trace_summary(events):
    """queues per apply worker, flagged indices, run-ahead per worker, unroll counts, timeouts"""
    queues = {}
    applied = {}
    flagged = []
    unroll = {}
    timeouts = 0
    loads = {}
    saves = {}
    dist = {}
    owners = {}
    for e in events:
        k = e["key"]
        if k.startswith("save-owner:"):
            owners.setdefault(e["worker"], []).append(k[len("save-owner:"):])
        if k.startswith("queue:"):
            _, w, idx, name = k.split(":", 3)
            queues.setdefault(w, []).append((int(idx), name))
        elif k.startswith("apply-end:"):
            body = k[len("apply-end:"):]
            idx, rest = body.split(":", 1)
            name, result = rest.rsplit(":", 1)
            applied.setdefault(e["worker"], []).append((int(idx), name, result))
        elif k.startswith("flagged:"):
            flagged.append(int(k.split(":")[1]))
        elif k.startswith("unroll:"):
            unroll[e["worker"]] = unroll.get(e["worker"], 0) + 1
        elif k.startswith("gate-timeout:"):
            timeouts += 1
        elif k.startswith("load:"):
            loads.setdefault(k[5:], set()).add(e["worker"])
        elif k.startswith("save-unlink:") or k.startswith("save-create:") or k.startswith("save-mkdirs:"):
            saves.setdefault(k.split(":", 1)[1], set()).add(e["worker"])
        elif k.startswith("dist:"):
            name, th = k[5:].rsplit(":", 1)
            dist[name] = int(th)
    final = min(flagged) if flagged else None
    depth = {}
    for w, items in applied.items():
        depth[w] = sum(1 for idx, _, _ in items if final is not None and idx > final)
    return {"queues": queues, "applied": applied, "final": final, "depth": depth, "unroll": unroll, "timeouts": timeouts, "loads": loads, "saves": saves, "dist": dist, "owners": owners}


def interleaving_signature(summ):
    """what the schedule realised: sorted run-ahead depth vector of the apply workers + unroll counts"""
    return (tuple(sorted(summ["depth"].values())), tuple(sorted(summ["unroll"].values())))


# ----------------------------------------------------------------------------
# C06 parallel push equals single-threaded push under every schedule


def c06_scripts(r, summ, nthreads, ws=None):
    """schedule scripts derived from an ungated traced run"""
    scripts = []
    queues = summ["queues"]
    final = summ["final"]
    workers = sorted(queues)
    # two workers racing to flag DIFFERENT failing patches, in both orders: the later patch j is decided upon
    # (apply-checked) before the earlier patch i is flagged, and flags after it - and the other way round
    if ws is not None:
        failing = {}
        for pi, p in enumerate(ws.patches):
            for op in p.ops:
                if op.poison:
                    failing.setdefault(pi, set()).add(op.path)
        idxs = sorted(failing)
        if len(idxs) >= 2:
            i = idxs[0]
            for j in idxs[1:]:
                wi = [w for w in workers if any(idx == i and name in failing[i] for idx, name in queues[w])]
                wj = [w for w in workers if any(idx == j and name in failing[j] for idx, name in queues[w])]
                if wi and wj and wi[0] != wj[0]:
                    fi = [name for idx, name in queues[wi[0]] if idx == i and name in failing[i]][0]
                    fj = [name for idx, name in queues[wj[0]] if idx == j and name in failing[j]][0]
                    scripts.append(("late-patch-flags-last", ["after apply-checked:%d:%s apply-begin:%d:%s 400" % (j, fj, i, fi),
                                                              "after flagged:%d apply-go:%d:%s 400" % (i, j, fj)]))
                    scripts.append(("late-patch-flags-first", ["after flagged:%d apply-begin:%d:%s 400" % (j, i, fi)]))
                    break
    if final is not None:
        failing_workers = [w for w in workers if any(idx == final for idx, _ in queues[w])]
        others = [w for w in workers if w not in failing_workers and any(idx > final for idx, _ in queues[w])]
        # 1. no run-ahead: nothing beyond the failing patch starts before the failure is flagged
        lines = []
        for w in workers:
            for idx, name in queues[w]:
                if idx > final:
                    lines.append("after flagged:%d apply-begin:%d:%s 400" % (final, idx, name))
        if lines:
            scripts.append(("no-run-ahead", lines))
        # 2. full run-ahead: the failing file patches wait until every other worker ended
        lines = []
        for fw in failing_workers:
            for idx, name in queues[fw]:
                if idx == final:
                    for o in others:
                        lines.append("after worker-end:%s apply-begin:%d:%s 400" % (o, idx, name))
        if lines:
            scripts.append(("full-run-ahead", lines))
        # 3. one intermediate depth for a random other worker
        for o in others:
            beyond = [(idx, name) for idx, name in queues[o] if idx > final]
            if len(beyond) >= 2:
                d = r.randint(1, len(beyond) - 1)
                lines = []
                reach = beyond[d - 1]
                nxt = beyond[d]
                for fw in failing_workers:
                    for idx, name in queues[fw]:
                        if idx == final:
                            lines.append("after apply-end:%d:%s:* apply-begin:%d:%s 400" % (reach[0], reach[1], idx, name))
                lines.append("after flagged:%d apply-begin:%d:%s 400" % (final, nxt[0], nxt[1]))
                scripts.append(("depth-%d" % d, lines))
                break
    # 3b. order of the save workers relative to the one that owns the failing patch's files (it rolls back and
    # renders the rejects before it saves): every other save worker done before it starts, and the other way round
    owners = summ.get("owners") or {}
    if final is not None and len(owners) >= 2:
        fnames = set(name for w in workers for idx, name in queues[w] if idx == final)
        if ws is not None and final < len(ws.patches):
            for op in ws.patches[final].ops:
                fnames.add(op.path)
                fnames.add(op.new_path)
        fown = sorted(w for w, files in owners.items() if any(f in fnames for f in files))
        rest = sorted(w for w in owners if w not in fown and owners[w])
        if fown and rest:
            last, firstl = [], []
            for fw in fown:
                f = sorted(x for x in owners[fw] if x in fnames)[0]
                for o in rest:
                    g = sorted(owners[o])[0]
                    last.append("after save-owner-done:%s save-owner:%s 400" % (g, f))
                    firstl.append("after save-owner-done:%s save-owner:%s 400" % (f, g))
            scripts.append(("failing-owner-saves-last", last))
            scripts.append(("failing-owner-saves-first", firstl))
    # 4. random delays over all gate points (apply and save phase)
    for _ in range(2):
        lines = []
        for w in workers:
            for idx, name in queues[w]:
                if r.random() < 0.3:
                    lines.append("delay apply-begin:%d:%s %d" % (idx, name, r.choice([1, 3, 10, 30])))
        for kind in ("save-unlink", "save-create", "save-mkdirs", "clean-readdir", "clean-rmdir", "save-worker-begin", "worker-begin"):
            if r.random() < 0.4:
                lines.append("delay %s:* %d" % (kind, r.choice([1, 2, 5])))
        if lines:
            scripts.append(("random-delays", lines))
    return scripts


def c06_cleanup_race_case(r, seed):
    """directed shape for the save phase: a directory whose files are, at some instant, all deleted or between
    unlink and re-create by different workers while one of them checks the directory for removal"""
    d = r.choice(["race", "src/race", "a/b/race"])
    f, g = d + "/gone.c", d + "/kept.c"
    content = b"l1\nl2\nl3\nl4\n"
    t0 = {f: (content, 0o644), g: (content, 0o644), "other/z.txt": (b"z\n", 0o644)}
    extra = r.random() < 0.3
    if extra:
        t0[d + "/third.c"] = (content, 0o644)
    op_del = wsgen.Op("delete", f, pre=content, post=None, pre_mode=0o644, post_mode=None)
    op_del.style = "devnull"
    op_mod = wsgen.Op("modify", g, pre=content, post=b"l1\nL2\nl3\nl4\n", pre_mode=0o644, post_mode=0o644)
    op_oth = wsgen.Op("modify", "other/z.txt", pre=b"z\n", post=b"z\nzz\n", pre_mode=0o644, post_mode=0o644)
    ops = [op_del, op_mod, op_oth]
    if extra:
        o3 = wsgen.Op("delete", d + "/third.c", pre=content, post=None, pre_mode=0o644, post_mode=None)
        o3.style = "devnull"
        ops.append(o3)
    r.shuffle(ops)
    ws = wsgen.Workspace()
    ws.seed = seed
    ws.t0 = t0
    if r.random() < 0.5:
        p = wsgen.PatchSpec("p0-race.patch", ops, 1, False, False)
        wsgen.render_patch(p, r)
        ws.patches = [p]
    else:
        ws.patches = []
        for i, o in enumerate(ops):
            p = wsgen.PatchSpec("p%d-race.patch" % i, [o], 1, False, False)
            wsgen.render_patch(p, r)
            ws.patches.append(p)
    t1 = {g: (op_mod.post, 0o644), "other/z.txt": (op_oth.post, 0o644)}
    ws.trees = [t0, t1]
    script = ["delay save-create:%s 40" % g, "after save-unlink:%s save-unlink:%s 300" % (g, f),
              "after save-unlink:%s clean-readdir:%s 300" % (g, d), "after save-unlink:%s clean-rmdir:%s 300" % (g, d)]
    return ws, script


def c06_worker(item):
    seed, binary = item
    r = random.Random(seed * 715225741 + 6)
    res = Res()
    x = r.random()
    if x < 0.12:
        return c06_cleanup_race(r, seed, binary, res)
    if x < 0.22:
        return c06_rotation(r, seed, binary, res)
    cfg = wsgen.GenConfig(p_fail=0.65, max_patches=r.choice([3, 5, 8]), max_files=r.choice([3, 6, 8]), max_ops=r.choice([2, 3, 4]))
    cfg.p_early_poison = 0.3
    cfg.kinds = ["modify"] * 6 + ["create"] * 2 + ["delete"] * 3 + ["rename"] * 3 + ["chmod", "truncate", "fill"]
    cfg.p_second_fail = 0.5
    # every fourth workspace: some patches spell names inside the tree as 'd//f' / 'd/./f' (one file, several spellings)
    wsgen.INNER_SPELLING[0] = seed % 4 == 0
    try:
        ws = wsgen.generate(seed, cfg)
    finally:
        wsgen.INNER_SPELLING[0] = False
    if seed % 4 == 0 and any(b"/./" in p.text for p in ws.patches):
        res.count("shape:one-file-under-several-spellings")
    if r.random() < 0.25 and wsgen.add_newdir_reject(ws, r):
        res.count("shape:reject-in-a-directory-created-by-this-run")
    if r.random() < 0.1 and wsgen.add_nested_emptying(ws, r):
        res.count("shape:nested-directories-emptied")
    if r.random() < 0.08 and wsgen.add_note_patch(ws, r):
        res.count("shape:patch-file-without-any-file-patch")
    if ws.fail_at is not None and ws.fail_at + 1 < len(ws.patches) and r.random() < 0.12:
        # a patch AFTER the failing one names something that can not be loaded (a directory in its place), as the target of a
        # modification or as the new name of a rename: a single-threaded run never gets there, so a worker that runs ahead
        # into it must not change the outcome
        for t in ws.trees:
            t["zdir/inner.txt"] = (b"inner\n", 0o644)
            t["zquiet.txt"] = (b"a file that no patch but this one names\n", 0o755)
        j = r.randrange(ws.fail_at + 1, len(ws.patches))
        pt = ws.patches[j]
        an, bn = wsgen._prefix(pt.strip, "a") + "zdir", wsgen._prefix(pt.strip, "b") + "zdir"
        if r.random() < 0.5:
            src = wsgen._prefix(pt.strip, "a") + "zquiet.txt"
            extra = b"diff --git %s %s\nsimilarity index 100%%\nrename from zquiet.txt\nrename to zdir\n" % (src.encode(), bn.encode())
            res.count("shape:unloadable-name-after-the-failing-patch:rename-target")
        else:
            extra = (b"diff --git %s %s\n" % (an.encode(), bn.encode()) if pt.git else b"") + b"--- %s\n+++ %s\n@@ -1 +1 @@\n-x\n+y\n" % (an.encode(), bn.encode())
            res.count("shape:unloadable-name-after-the-failing-patch:target")
        # (a hunk-less git section goes last: in front of a plain section its header would swallow that section's ---/+++ lines
        # and the patch would no longer parse, which is outside this property)
        pt.text = (pt.text + extra) if (extra.startswith(b"diff --git") and b"rename from" in extra) or r.random() < 0.5 else (extra + pt.text)
        if r.random() < 0.35:
            # ... and another one AT OR BEFORE the failing patch (the same name, or a second directory): that error counts -
            # the single-threaded run ends with it and saves nothing - whatever else a worker that ran ahead may have met
            i = r.randrange(0, ws.fail_at + 1)
            pi_ = ws.patches[i]
            zn = r.choice(["zdir", "zdir2"])
            if zn == "zdir2":
                for t in ws.trees:
                    t["zdir2/inner.txt"] = (b"inner\n", 0o644)
            a2, b2 = wsgen._prefix(pi_.strip, "a") + zn, wsgen._prefix(pi_.strip, "b") + zn
            extra2 = (b"diff --git %s %s\n" % (a2.encode(), b2.encode()) if pi_.git else b"") + b"--- %s\n+++ %s\n@@ -1 +1 @@\n-x\n+y\n" % (a2.encode(), b2.encode())
            pi_.text = pi_.text + extra2
            res.count("shape:unloadable-names-on-both-sides-of-the-failing-patch")
    nthreads = r.choice([2, 3, 4, 8, 16])
    backup = r.choice(["always", None, "never"])
    bcount = r.choice([None, None, None, 0, 1, 2, "all"])
    verbosity = r.choice(["-q", "-q", None])
    dry = r.random() < 0.1
    common_tail = (["--dry-run"] if dry else []) + ["push", "-a"]
    extra = []
    if r.random() < 0.2:
        for opt in r.sample([["-F", str(r.choice([1, 2, 3]))], ["-A", "multiapply"], ["--mmap"]], r.randint(1, 2)):
            extra += opt
        res.count("workspaces-with-fuzz-/-mmap-/-analysis-options")
    a_seq = base_args(threads=1, backup=backup, backup_count=bcount, verbosity=verbosity, extra=extra) + common_tail
    a_par = base_args(threads=nthreads, backup=backup, backup_count=bcount, verbosity=verbosity, extra=extra) + common_tail
    with Scratch("c06") as scr:
        orig, wseq = fresh(scr, ws, 0)
        r1 = runner.run_rq(binary, wseq, a_seq)
        if r1.timed_out:
            res["inconclusive"] = "watchdog"
            return res
        o1 = cli.observe(wseq)
        sigs = set()

        def par_run(tag, script_lines):
            w = os.path.join(scr, "par-%s" % tag)
            runner.copy_ws(orig, w)
            tr = os.path.join(scr, "trace-%s.log" % tag)
            env = {"RAPIDQUILT_VERIF_TRACE": tr}
            if script_lines:
                sp = os.path.join(scr, "sched-%s.txt" % tag)
                with open(sp, "w") as f:
                    f.write("\n".join(script_lines) + "\n")
                env["RAPIDQUILT_VERIF_SCHED"] = sp
            rr = runner.run_rq(binary, w, a_par, env_extra=env)
            res["evals"] += 1
            summ = trace_summary(read_trace(tr))
            if rr.timed_out:
                res["inconclusive"] = "watchdog"
                return summ, False
            what = None
            if rr.crashed():
                res.viol({"class": "crash", "rc": str(rr.rc), "where": cli.crash_site(rr.err), "schedule": tag.split("#")[0]},
                         "parallel run crashed under schedule %s: %s" % (tag, rr.err.decode("utf-8", "replace")[-400:]), orig, [binary] + a_par,
                         extra={"schedule": script_lines, "workspace": ws.describe()})
                return summ, False
            o2 = cli.observe(w)
            if rr.rc != r1.rc:
                what = ("exit-status", "seq %s par %s; par stderr: %s" % (r1.rc, rr.rc, rr.err.decode("utf-8", "replace")[-300:]))
            elif o1["applied"] != o2["applied"]:
                what = ("applied-patches", "seq %r par %r" % (o1["applied"], o2["applied"]))
            elif o1["tree"] != o2["tree"]:
                dp = sorted(p for p in set(o1["tree"]) | set(o2["tree"]) if o1["tree"].get(p) != o2["tree"].get(p))
                what = ("tree", "%s" % dp[:4])
            elif o1["dirs"] != o2["dirs"]:
                what = ("directories", "seq-only %r par-only %r" % (sorted(o1["dirs"] - o2["dirs"]), sorted(o2["dirs"] - o1["dirs"])))
            elif o1["pc"] != o2["pc"]:
                dp = sorted(p for p in set(o1["pc"]) | set(o2["pc"]) if o1["pc"].get(p) != o2["pc"].get(p))
                what = ("pc", "%s" % dp[:4])
            elif o1["rej"] != o2["rej"]:
                what = ("rejects", "seq %r par %r" % (sorted(o1["rej"]), sorted(o2["rej"])))
            if what:
                res.viol({"class": "parallel-differs", "what": what[0], "schedule": tag.split("#")[0]},
                         "threads=%d schedule %s: %s: %s" % (nthreads, tag, what[0], what[1]), orig, [binary] + a_par,
                         extra={"schedule": script_lines, "sequential": a_seq, "workspace": ws.describe()})
                return summ, False
            sig = interleaving_signature(summ)
            sigs.add((tag.split("#")[0],) + sig)
            res.count("parallel-runs-compared")
            res.count("schedule:%s" % tag.split("#")[0])
            if summ["timeouts"]:
                res.count("gate-timeouts", summ["timeouts"])
            if any(d > 0 for d in summ["depth"].values()):
                res.count("runs-with-run-ahead")
                res.count("run-ahead-file-patches-unrolled", sum(summ["unroll"].values()))
            return summ, True

        summ0, ok = par_run("natural", None)
        if not ok:
            return res
        scripts = c06_scripts(r, summ0, nthreads, ws)
        for i, (tag, lines) in enumerate(scripts):
            _, ok = par_run("%s#%d" % (tag, i), lines)
            if not ok:
                return res
        res.count("held-workspaces")
        for s in sigs:
            res["nontrivial"].append(case_key(cli.ws_shape_key(ws), nthreads, s))
        res.count("distinct-interleaving-signatures", len(sigs))
        if seed % 60 == 37:
            res["sample"] = {"workspace": ws.describe(), "threads": nthreads, "args": a_par, "schedules_run": [t for t, _ in scripts], "example_script": scripts[0][1][:6] if scripts else None,
                             "interleaving_signatures": sorted(repr(s) for s in sigs), "exit": r1.rc}
    return res


def c06_rotation(r, seed, binary, res):
    """directed shape for the distribution of file patches: a "log rotation" series - the oldest file is deleted, every
    other one is renamed to the next name (so each name is first seen before the file that is later renamed to it),
    a fresh first file is created, and some of the rotated files are patched afterwards"""
    k = r.randint(3, 6)
    base = r.choice(["log", "var/log/app.log", "bak/data"])
    names = ["%s.%d" % (base, i) for i in range(k)]
    tree = {}
    for i, nme in enumerate(names):
        tree[nme] = (b"generation %d\nline a\nline b\nline c\n" % i, 0o644)
    tree["unrelated.txt"] = (b"u\n", 0o644)
    ws = wsgen.Workspace()
    ws.seed = seed
    ws.t0 = dict(tree)
    ws.trees = [dict(tree)]
    patches = []

    def add(ops, git):
        p = wsgen.PatchSpec("r%02d.patch" % len(patches), ops, 1, False, git)
        wsgen.render_patch(p, r)
        patches.append(p)
        ws.trees.append(dict(tree))

    one_patch_per_step = r.random() < 0.6
    ops = []
    last = names[-1]
    o = wsgen.Op("delete", last, pre=tree[last][0], post=None, pre_mode=0o644, post_mode=None)
    o.style = "git"
    ops.append(o)
    del tree[last]
    if one_patch_per_step:
        add(ops, True)
        ops = []
    for i in range(k - 2, -1, -1):
        src, dst = names[i], names[i + 1]
        data = tree[src][0]
        post = data + (b"rotated\n" if r.random() < 0.5 else b"")
        o = wsgen.Op("rename", src, new_path=dst, pre=data, post=post, pre_mode=0o644, post_mode=0o644)
        o.style = "git"
        o.ctx = 3
        ops.append(o)
        del tree[src]
        tree[dst] = (post, 0o644)
        if one_patch_per_step:
            add(ops, True)
            ops = []
    o = wsgen.Op("create", names[0], pre=None, post=b"fresh\n", pre_mode=None, post_mode=0o644)
    o.style = "git"
    ops.append(o)
    tree[names[0]] = (b"fresh\n", 0o644)
    add(ops, True)
    # patch some rotated files afterwards
    for nme in r.sample(names, r.randint(1, min(3, k))):
        data = tree[nme][0]
        post = data + b"patched later\n"
        o = wsgen.Op("modify", nme, pre=data, post=post, pre_mode=0o644, post_mode=0o644)
        o.style = r.choice(["plain", "git"])
        tree[nme] = (post, 0o644)
        add([o], o.style == "git")
    ws.patches = patches
    nthreads = r.choice([2, 3, 4, 5, 8, 16])
    backup = r.choice(["always", None])
    a_seq = base_args(threads=1, backup=backup, verbosity="-q") + ["push", "-a"]
    a_par = base_args(threads=nthreads, backup=backup, verbosity="-q") + ["push", "-a"]
    with Scratch("c06rot") as scr:
        orig, wseq = fresh(scr, ws, 0)
        r1 = runner.run_rq(binary, wseq, a_seq)
        res["evals"] += 1
        # the sequential run itself is checked against the ground truth of the rotation
        out = cli.check_push_outcome(res, ws, wseq, r1, 0, len(ws.patches), {"shape": "rotation", "driver": "seq"}, [binary] + a_seq)
        if not out:
            return res
        o1 = out[3]
        wpar = os.path.join(scr, "par")
        runner.copy_ws(orig, wpar)
        r2 = runner.run_rq(binary, wpar, a_par)
        res["evals"] += 1
        if r2.timed_out:
            res["inconclusive"] = "watchdog"
            return res
        o2 = cli.observe(wpar)
        what = None
        if r2.crashed():
            what = "crash"
        elif r2.rc != r1.rc:
            what = "exit-status"
        elif o1["tree"] != o2["tree"] or o1["dirs"] != o2["dirs"]:
            what = "tree"
        elif o1["pc"] != o2["pc"]:
            what = "pc"
        elif o1["applied"] != o2["applied"]:
            what = "applied-patches"
        if what:
            res.viol({"class": "parallel-differs", "what": what, "schedule": "natural", "shape": "rotation"},
                     "rotation of %d files, threads=%d: %s differs from the single-threaded run; par rc %s stderr: %s" % (k, nthreads, what, r2.rc, r2.err.decode("utf-8", "replace")[-300:]),
                     orig, [binary] + a_par, extra={"workspace": ws.describe()})
            return res
        res.count("parallel-runs-compared")
        res.count("schedule:natural")
        res.count("rotation-shape-runs")
        res.count("held-workspaces")
        res["nontrivial"].append(case_key("rotation", k, base, one_patch_per_step, nthreads, cli.ws_shape_key(ws)))
    return res


def c06_cleanup_race(r, seed, binary, res):
    ws, script = c06_cleanup_race_case(r, seed)
    nthreads = r.choice([2, 3, 4, 8])
    a_seq = base_args(threads=1, backup="never", verbosity="-q") + ["push", "-a"]
    a_par = base_args(threads=nthreads, backup="never", verbosity="-q") + ["push", "-a"]
    with Scratch("c06r") as scr:
        orig = os.path.join(scr, "ws.orig")
        wsgen.materialize(ws, orig)
        wseq = os.path.join(scr, "seq")
        runner.copy_ws(orig, wseq)
        r1 = runner.run_rq(binary, wseq, a_seq)
        o1 = cli.observe(wseq)
        for tag, lines in (("save-window", script), ("natural", None)):
            w = os.path.join(scr, "par-" + tag)
            runner.copy_ws(orig, w)
            tr = os.path.join(scr, "trace-%s.log" % tag)
            env = {"RAPIDQUILT_VERIF_TRACE": tr}
            if lines:
                sp = os.path.join(scr, "sched.txt")
                with open(sp, "w") as f:
                    f.write("\n".join(lines) + "\n")
                env["RAPIDQUILT_VERIF_SCHED"] = sp
            rr = runner.run_rq(binary, w, a_par, env_extra=env)
            res["evals"] += 1
            if rr.timed_out or r1.timed_out:
                res["inconclusive"] = "watchdog"
                return res
            o2 = cli.observe(w)
            what = None
            if rr.crashed():
                what = "crash"
            elif rr.rc != r1.rc:
                what = "exit-status"
            elif o1["tree"] != o2["tree"] or o1["dirs"] != o2["dirs"]:
                what = "tree"
            elif o1["applied"] != o2["applied"]:
                what = "applied-patches"
            if what:
                res.viol({"class": "parallel-differs", "what": what, "schedule": tag, "shape": "cleanup-race"},
                         "threads=%d schedule %s: %s differs from the single-threaded run (seq rc %s, par rc %s); stderr: %s" % (nthreads, tag, what, r1.rc, rr.rc, rr.err.decode("utf-8", "replace")[-300:]),
                         orig, [binary] + a_par, extra={"schedule": lines, "workspace": ws.describe()})
                return res
            ev = read_trace(tr)
            workers = set(e["worker"] for e in ev if e["key"].startswith("save-unlink:"))
            res.count("parallel-runs-compared")
            res.count("schedule:%s" % tag)
            if len(workers) >= 2:
                res.count("cleanup-race-shape:directory-shared-by-two-save-workers")
                res["nontrivial"].append(case_key("race", cli.ws_shape_key(ws), nthreads, tag))
        res.count("held-workspaces")
    return res


def cli_c06(v, tier, seed):
    b = rq()
    cli.pool_run(v, c06_worker, [(seed * 1_000_003 + i, b) for i in range(n(tier, 1200, 20000))])


# ----------------------------------------------------------------------------
# C07 related file names are handled by the same worker


def canonical_sequences(max_pairs, max_names):
    """every sequence of (name, optional related name) pairs up to renaming: names are introduced in order 0,1,2,..."""
    out = []

    def rec(seq, used):
        if seq:
            out.append(list(seq))
        if len(seq) == max_pairs:
            return
        for a in range(min(used + 1, max_names)):
            ua = max(used, a + 1)
            # single name
            seq.append((a, None))
            rec(seq, ua)
            seq.pop()
            for b in range(min(ua + 1, max_names)):
                if b == a:
                    continue
                ub = max(ua, b + 1)
                seq.append((a, b))
                rec(seq, ub)
                seq.pop()

    rec([], 0)
    return out


def components(seq):
    parent = {}

    def find(x):
        while parent.setdefault(x, x) != x:
            parent[x] = parent[parent[x]]
            x = parent[x]
        return x

    for a, b in seq:
        find(a)
        if b is not None:
            ra, rb = find(a), find(b)
            if ra != rb:
                parent[ra] = rb
    return {x: find(x) for x in parent}


def c07_closure_batch(item):
    """feed a batch of sequences x thread counts to the real FilenameDistributor through the hook sub-command"""
    import subprocess
    seqs, threads_list, binary, tag = item
    res = Res()
    lines = []
    index = []
    for th in threads_list:
        lines.append("T %d" % th)
        for s in seqs:
            for a, b in s:
                lines.append("P n%d" % a if b is None else "P n%d n%d" % (a, b))
            lines.append("E")
            index.append((th, s))
    p = subprocess.run([binary, "verif-distribute"], input=("\n".join(lines) + "\n").encode(), stdout=subprocess.PIPE, stderr=subprocess.PIPE, timeout=300)
    if p.returncode != 0:
        res["violations"].append({"sig": {"class": "crash", "engine": "distributor-driver", "rc": str(p.returncode)}, "detail": p.stderr.decode("utf-8", "replace")[-400:], "payload": {}, "files": {}})
        return res
    outs = p.stdout.decode().split("\n")
    for (th, s), line in zip(index, outs):
        res["evals"] += 1
        m = {}
        for tok in line.split():
            nme, t = tok.rsplit("=", 1)
            m[int(nme[1:])] = int(t)
        comp = components(s)
        related = sum(1 for a, b in s if b is not None)
        if related >= 2:
            res["nontrivial"].append(case_key(tag, th, tuple(s)))
        bad = None
        for x in comp:
            if x not in m:
                bad = ("name-missing-from-map", x)
                break
            if not (0 <= m[x] < th):
                bad = ("thread-out-of-range", x)
                break
        if not bad:
            byroot = {}
            for x, rt in comp.items():
                byroot.setdefault(rt, set()).add(m[x])
            if any(len(v) > 1 for v in byroot.values()):
                bad = ("related-names-on-different-threads", None)
        if bad:
            res["violations"].append({"sig": {"class": bad[0], "engine": "distributor-driver"},
                                      "detail": "pairs %r threads %d -> map %r" % (s, th, m), "payload": {"pairs": s, "threads": th, "map": m}, "files": {}})
            if len(res["violations"]) > 5:
                break
        if len(comp) and max(len([1 for y in comp.values() if y == rt]) for rt in set(comp.values())) >= 3:
            res.count("components-of>=3-names")
    res.count("sequences-checked", len(index))
    return res


def c07_trace_worker(item):
    """consequence in real pushes: every file is loaded by one apply worker and saved by one save worker"""
    seed, binary = item
    r = random.Random(seed * 817504243 + 7)
    res = Res()
    cfg = wsgen.GenConfig(p_fail=0.3, max_patches=r.choice([4, 8, 12]), max_files=r.choice([2, 4, 6]), max_ops=3)
    cfg.kinds = ["modify"] * 4 + ["rename"] * 5 + ["create", "delete"]
    # every second workspace: some patches spell names inside the tree as 'd//f' / 'd/./f'; the monitor below judges by the file
    # a name denotes (normalised path), not by its spelling
    wsgen.INNER_SPELLING[0] = seed % 2 == 0
    try:
        ws = wsgen.generate(seed, cfg)
    finally:
        wsgen.INNER_SPELLING[0] = False
    nthreads = r.choice([2, 3, 4, 7, 16])
    args = base_args(threads=nthreads, backup=r.choice(["never", "always"]), verbosity="-q") + ["push", "-a"]
    with Scratch("c07") as scr:
        orig, work = fresh(scr, ws, 0)
        tr = os.path.join(scr, "trace.log")
        rr = runner.run_rq(binary, work, args, env_extra={"RAPIDQUILT_VERIF_TRACE": tr})
        res["evals"] = 1
        if rr.timed_out:
            res["inconclusive"] = "watchdog"
            return res
        if rr.crashed():
            res.viol({"class": "crash", "rc": str(rr.rc), "where": cli.crash_site(rr.err)}, rr.err.decode("utf-8", "replace")[-300:], orig, [binary] + args)
            return res
        summ = trace_summary(read_trace(tr))
        spellings = 0
        for what in ("loads", "saves"):
            merged = {}
            for name, ws_ in summ[what].items():
                merged.setdefault(os.path.normpath(name), set()).update(ws_)
            spellings += len(summ[what]) - len(merged)
            summ[what] = merged
        dist_n = {}
        for name, th in summ["dist"].items():
            dist_n.setdefault(os.path.normpath(name), set()).add(th)
        spellings += len(summ["dist"]) - len(dist_n)
        if spellings:
            res.count("runs-with-one-file-under-several-spellings")
        for name, ths in dist_n.items():
            if len(ths) > 1:
                res.viol({"class": "spellings-of-one-file-on-different-threads", "engine": "trace"}, "%s distributed to threads %s" % (name, sorted(ths)), orig, [binary] + args,
                         extra={"workspace": ws.describe()})
                return res
        summ["dist"] = {k: min(v) for k, v in dist_n.items()}
        for name, ws_ in summ["loads"].items():
            if len(ws_) > 1:
                res.viol({"class": "file-loaded-by-two-workers", "engine": "trace"}, "%s loaded by %s" % (name, sorted(ws_)), orig, [binary] + args, extra={"workspace": ws.describe()})
                return res
        for name, ws_ in summ["saves"].items():
            if len(ws_) > 1:
                res.viol({"class": "file-saved-by-two-workers", "engine": "trace"}, "%s saved by %s" % (name, sorted(ws_)), orig, [binary] + args, extra={"workspace": ws.describe()})
                return res
        # the distribution map of the real run against the relations of the series (ground truth from the generator)
        pairs = []
        for p in ws.patches:
            for op in p.ops:
                if op.new_path != op.path:
                    pairs.append((op.path, op.new_path))
                elif op.orig_style:
                    pairs.append((op.path + ".orig", op.path))
                else:
                    pairs.append((op.path, None))
        comp = components(pairs)
        byroot = {}
        for x, rt in comp.items():
            if x in summ["dist"]:
                byroot.setdefault(rt, set()).add(summ["dist"][x])
        if any(len(v) > 1 for v in byroot.values()):
            res.viol({"class": "related-names-on-different-threads", "engine": "trace"}, "distribution map %r splits a chain of %r" % (summ["dist"], pairs), orig, [binary] + args,
                     extra={"workspace": ws.describe()})
            return res
        res.count("held-runs")
        res.count("files-with-load-events", len(summ["loads"]))
        res.count("files-with-save-events", len(summ["saves"]))
        chains = [rt for rt in set(comp.values()) if sum(1 for y in comp.values() if y == rt) >= 3]
        if chains:
            res.count("runs-with-chains-of>=3-names")
            res["nontrivial"].append(case_key("trace", cli.ws_shape_key(ws), nthreads))
        if seed % 200 == 41:
            res["sample"] = {"relations": pairs[:12], "threads": nthreads, "distribution_map": summ["dist"], "loaded_by": {k: sorted(v) for k, v in list(summ["loads"].items())[:8]}}
    return res


def cli_c07(v, tier, seed):
    b = rq()
    seqs = canonical_sequences(n(tier, 5, 6), 5)
    v.extra["exhaustive_space"] = {"generator": "canonical sequences of <= %d pairs over <= 5 names" % n(tier, 5, 6), "size": len(seqs), "thread_counts": [2, 3, 4, 7, 16]}
    batches = []
    bs = 4000
    for i in range(0, len(seqs), bs):
        batches.append((seqs[i:i + bs], [2, 3, 4, 7, 16], b, "exh"))
    # random longer sequences with repeats
    r = random.Random(seed * 31 + 7)
    rnd = []
    for _ in range(n(tier, 20000, 300000)):
        nn = r.randint(2, 12)
        L = r.randint(2, 40)
        s = []
        for _ in range(L):
            a = r.randrange(nn)
            if r.random() < 0.7:
                bb = r.randrange(nn)
                s.append((a, bb if bb != a else None))
            else:
                s.append((a, None))
            if s and r.random() < 0.2:
                s.append(r.choice(s))
        rnd.append(s)
    for i in range(0, len(rnd), bs):
        batches.append((rnd[i:i + bs], [r.choice([2, 3, 4, 7, 16])], b, "rnd"))
    cli.pool_run(v, c07_closure_batch, batches)
    cli.pool_run(v, c07_trace_worker, [(seed * 1_000_003 + i, b) for i in range(n(tier, 3000, 40000))])


# ----------------------------------------------------------------------------
# C01 (CLI layer): the diff A->B pushed onto A gives exactly B, in every dialect


C01_DIALECTS = ["plain", "plain-ts", "git", "devnull", "samename", "orig", "quoted", "quoted-git"]


def c01_worker(item):
    seed, binary = item
    r = random.Random(seed * 899809363 + 1)
    res = Res()
    wsgen.AVOID_KNOWN_SHAPES = False
    a_state = r.choice(["content", "content", "content", "content", "absent", "empty"])
    b_state = r.choice(["content", "content", "content", "content", "absent", "empty"])
    if a_state == "absent" and b_state == "absent":
        b_state = "content"
    a = wsgen.gen_content(r, r.choice([3, 10, 40])) or b"a\n"
    if r.random() < 0.03:
        # more lines than one vectored write takes (IOV_MAX = 1024)
        a = b"".join(b"line %d of a long file\n" % k for k in range(r.choice([1025, 1300, 3000]))) + a
        res.count("file-of-more-than-1024-lines")
    b = wsgen.mutate_content(r, a, 5)
    if r.random() < 0.15:
        b = wsgen.gen_content(r, 20) or b"other\n"
    pre = None if a_state == "absent" else (b"" if a_state == "empty" else a)
    post = None if b_state == "absent" else (b"" if b_state == "empty" else b)
    if pre == post:
        post = (post or b"") + b"changed\n"
        b_state = "content"
    dialect = r.choice(C01_DIALECTS)
    name = r.choice(wsgen.NAME_POOL)
    if dialect.startswith("quoted"):
        name = r.choice(wsgen.SPECIAL_NAMES)
    git = dialect in ("git", "quoted-git")
    kind = "create" if pre is None else ("delete" if post is None else "modify")
    op = wsgen.Op(kind, name, pre=pre, post=post, pre_mode=None if pre is None else 0o644, post_mode=None if post is None else 0o644)
    op.ctx = r.choice([0, 0, 1, 2, 3, 3, 5])
    op.timestamps = dialect == "plain-ts"
    op.orig_style = dialect == "orig" and pre is not None and post is not None
    if git:
        op.style = "git"
    elif dialect == "samename":
        op.style = "samename"
    elif pre is None or post is None:
        op.style = "devnull"
    else:
        op.style = "plain"
    if op.style == "samename" and post is None:
        # the same name on both lines cannot express a removal: the file is emptied, not removed
        post_expected = b""
    else:
        post_expected = post
    strip = r.choice([1, 1, 0, 2, 3])
    reverse = r.random() < 0.4
    p = wsgen.PatchSpec("the.patch", [op], strip, reverse, git)
    wsgen.render_patch(p, r)
    ws = wsgen.Workspace()
    ws.seed = seed
    t_a = {} if pre is None else {name: (pre, 0o644)}
    t_b = {} if post_expected is None else {name: (post_expected, 0o644)}
    ws.t0, ws.patches, ws.trees = t_a, [p], [t_a, t_b]
    hunks = op.hunks or []
    shape = "regular"
    if not hunks and not git:
        # absent <-> empty has no rendering outside the git dialect (diff -N prints nothing): not a case
        return res
    if not hunks:
        shape = "no-hunks-(empty-file-created-or-deleted)"
    elif pre and post and op.ctx == 0 and len(hunks) == 1 and ((not hunks[0].old() and hunks[0].old_start == 0) or (not hunks[0].new() and hunks[0].new_start == 0)):
        shape = "empty-side-at-line-0"
    threads = r.choice([1, 4])
    args = base_args(threads=threads, backup=r.choice(["never", None]), verbosity="-q") + ["push"]
    sig0 = {"engine": "cli", "dialect": dialect, "shape": shape, "direction": "reverse" if reverse else "forward"}
    with Scratch("c01") as scr:
        orig, work = fresh(scr, ws, 0)
        rr = runner.run_rq(binary, work, args)
        res["evals"] = 1
        before = len(res["violations"])
        out = cli.check_push_outcome(res, ws, work, rr, 0, 1, sig0, [binary] + args)
        for v in res["violations"][before:]:
            v["sig"].pop("driver", None)
            if v["sig"].get("class") == "exit-status":
                v["sig"]["class"] = "push-failed"
                m = __import__("re").search(r"FAILED ([A-Z][a-z ]+[a-z])\.", rr.err.decode("utf-8", "replace"))
                v["sig"]["reason"] = m.group(1) if m else "?"
        if out:
            res.count("held-runs")
            res.count("dialect:%s" % dialect)
            res.count("strip=%d" % strip)
            res.count("direction:%s" % ("reverse" if reverse else "forward"))
            res.count("A=%s,B=%s" % (a_state, b_state))
            if hunks:
                res["nontrivial"].append(case_key(pre, post, op.ctx, dialect, strip, reverse, threads))
            if any(not h.old() or not h.new() for h in hunks):
                res.count("hunks-with-an-empty-side")
            if (pre and not pre.endswith(b"\n")) or (post and not post.endswith(b"\n")):
                res.count("missing-final-newline")
            try:
                (pre or b"").decode("utf-8")
                (post or b"").decode("utf-8")
            except UnicodeDecodeError:
                res.count("non-utf8-content")
        if seed % 400 == 43:
            res["sample"] = {"A": None if pre is None else pre.decode("latin-1")[:200], "B": None if post is None else post.decode("latin-1")[:200], "dialect": dialect,
                             "series_line": p.series_line, "patch": p.text.decode("latin-1")[:600], "args": args, "exit": rr.rc}
    return res


def cli_c01(v, tier, seed):
    b = rq()
    cli.pool_run(v, c01_worker, [(seed * 1_000_003 + i, b) for i in range(n(tier, 8000, 150000))])


# ----------------------------------------------------------------------------
# C04 (CLI layer): in-memory rollback of a failing patch that renames / creates / deletes / chmods


def c04_worker(item):
    seed, binary = item
    r = random.Random(seed * 920419823 + 4)
    res = Res()
    cfg = wsgen.GenConfig(p_fail=1.0, max_patches=r.choice([1, 2, 3]), max_ops=r.choice([3, 4, 5]), max_files=r.choice([2, 4]))
    cfg.p_early_poison = 0.3
    cfg.kinds = ["modify"] * 3 + ["create"] * 3 + ["delete"] * 3 + ["rename"] * 4 + ["chmod"] * 3 + ["truncate"]
    cfg.fail_reasons = ["hunks", "hunks", "missing", "create-over", "delete-mismatch"]
    ws = wsgen.generate(seed, cfg)
    if ws.fail_at is None:
        return res
    threads = r.choice([1, 1, 4])
    backup = r.choice(["always", "always", None])
    verbosity = r.choice(["-q", None])
    args = base_args(threads=threads, backup=backup, verbosity=verbosity) + ["push", "-a"]
    sig0 = {"engine": "cli", "driver": "seq" if threads == 1 else "par"}
    with Scratch("c04") as scr:
        orig, work = fresh(scr, ws, 0)
        rr = runner.run_rq(binary, work, args)
        res["evals"] = 1
        out = cli.check_push_outcome(res, ws, work, rr, 0, len(ws.patches), sig0, [binary] + args)
        if out:
            k, exp_tree, fail_idx, obs = out
            fp = ws.patches[fail_idx]
            kinds = sorted(set(o.kind for o in fp.ops if not o.poison))
            res.count("held-runs")
            for kd in kinds:
                res.count("undone-in-failing-patch:%s" % kd)
            if kinds:
                res["nontrivial"].append(case_key(cli.ws_shape_key(ws), threads, backup, verbosity))
            # backups replay rollback over the whole window
            if backup == "always" and k > 0:
                exp = expected_backups(ws, 0, k, "always", 100, True)
                got = {p: v for p, v in obs["pc"].items() if v[0] == "f" and p != ".pc/applied-patches"}
                for p, (data, m) in exp.items():
                    g = got.get(p)
                    if g is None or g[1] != data or (m is not None and g[2] != m):
                        res.viol(dict(sig0, **{"class": "backup-after-rollback-wrong"}), "backup %s does not hold the state before its patch" % p, orig, [binary] + args, extra={"workspace": ws.describe()})
                        break
                else:
                    res.count("backup-windows-verified")
        if seed % 300 == 47:
            res["sample"] = {"workspace": ws.describe(), "args": args, "exit": rr.rc}
    return res


def cli_c04(v, tier, seed):
    b = rq()
    cli.pool_run(v, c04_worker, [(seed * 1_000_003 + i, b) for i in range(n(tier, 4000, 60000))])


# ----------------------------------------------------------------------------
# C11 (CLI layer): the whole tool on hostile patch and series files exits with 0 or 1


def c11_worker(item):
    import subprocess
    from common import HARNESS_BIN
    seed, binary = item
    r = random.Random(seed * 941083987 + 11)
    res = Res()
    with Scratch("c11") as scr:
        work = os.path.join(scr, "ws")
        os.makedirs(os.path.join(work, "patches"))
        for nme, data in (("f", b"a\nb\nc\n"), ("b/f", b"ctx\nold\nctx\n"), ("g h", b"x\n")):
            fp = os.path.join(work, nme)
            os.makedirs(os.path.dirname(fp), exist_ok=True)
            with open(fp, "wb") as f:
                f.write(data)
        mode = r.choice(["patch", "patch", "series"])
        if mode == "patch":
            src = r.choice(["numeric", "mutant", "vocab", "valid"])
            # hostile patch text from the harness generators (one index -> bytes)
            idx = r.randrange(10**6) if src != "vocab" else r.randrange(1_200_000)
            from common import REPO
            try:
                gp = subprocess.run([HARNESS_BIN, "genbytes", "--gen", src, "--seed", str(seed), "--param", "4", "--index", str(idx), "--repo", REPO],
                                    stdout=subprocess.PIPE, stderr=subprocess.DEVNULL, timeout=60)
                data = bytes.fromhex(gp.stdout.decode().strip()) if gp.returncode == 0 and gp.stdout.strip() else None
            except (subprocess.TimeoutExpired, ValueError):
                data = None
            if data is None:
                data = b"--- a/f\n+++ b/f\n@@ -%s,1 +1 @@\n-a\n+b\n" % r.choice([b"0", b"1", b"4294967296", b"9223372036854775807", b"18446744073709551615"])
            with open(os.path.join(work, "patches", "h.patch"), "wb") as f:
                f.write(data)
            series = "h.patch" + r.choice(["", " -p0", " -p1", " -R", " -p2 -R"]) + "\n"
            desc = {"mode": "patch", "source": src, "patch": data.decode("latin-1")[:300], "series": series}
        else:
            good = r.choice([b"--- a/f\n+++ b/f\n@@ -1,3 +1,3 @@\n a\n-b\n+B\n c\n",
                             b'--- "a/f"\n+++ "b/f"\n@@ -1,3 +1,3 @@\n a\n-b\n+B\n c\n',
                             b'diff --git "a/g h" "b/g h"\n--- "a/g h"\n+++ "b/g h"\n@@ -1 +1 @@\n-x\n+y\n'])
            with open(os.path.join(work, "patches", "ok.patch"), "wb") as f:
                f.write(good)
            line = r.choice([
                "ok.patch -p4000000000", "ok.patch -p18446744073709551615", "ok.patch -p9223372036854775808", "ok.patch -p 99999999999999999999999",
                "ok.patch -p-1", "ok.patch --strip", "ok.patch -R -R -R", "ok.patch -pX", "ok.patch -p1 extra free args # comment", "ok.patch --unknown-option",
                "   ok.patch    -p1   ", "\tok.patch\t-p1\t", "ok.patch -p", "ok.patch -", "ok.patch --", "-p1 ok.patch", "ok.patch\x00-p1", "ok.patch \xff\xfe",
                "#ok.patch", " #ok.patch", "ok.patch -p1 -p2", "ok.patch -p0001", "ok.patch -p+1", "\x0c", "ok.patch -p1\r",
                "ok.patch -p" + "9" * r.randint(5, 40), "ok.patch " + "-R " * r.randint(1, 50), "ok.patch -p%d" % r.choice([0, 1, 2, 3, 7, 100, 2**31, 2**32, 2**62]),
            ])
            series = line + "\n"
            desc = {"mode": "series", "series": line}
        with open(os.path.join(work, "series"), "wb") as f:
            f.write(series.encode("latin-1", "replace"))
        args = base_args(threads=r.choice([1, 4]), verbosity=r.choice(["-q", None]), extra=r.choice([[], ["-F", "3"], ["--dry-run"], ["--backup", "always"], ["--mmap"], ["-A", "multiapply"], ["-A", "multiapply", "-F", "2"]])) + ["push", "-a"]
        rr = runner.run_rq(binary, work, args, timeout=40)
        res["evals"] = 1
        sig0 = {"engine": "cli", "input": desc["mode"]}
        files = {"series": series.encode("latin-1", "replace")}
        if mode == "patch":
            files["h.patch"] = data
        if rr.timed_out:
            # isolated confirmation: a 40 s budget for a few hundred bytes of input
            r2 = runner.run_rq(binary, work, args, timeout=40)
            if r2.timed_out:
                res.viol(dict(sig0, **{"class": "no-termination-within-watchdog"}), "did not finish within 40 s (twice): %r" % desc, work, [binary] + args, extra=desc, files=files)
            else:
                res["inconclusive"] = "watchdog fired once, not reproducible"
            return res
        if rr.crashed():
            res.viol(dict(sig0, **{"class": "crash", "rc": str(rr.rc), "where": cli.crash_site(rr.err)}), "exit status %s: %s; input %r" % (rr.rc, rr.err.decode("utf-8", "replace")[-300:], desc), work, [binary] + args, extra=desc, files=files)
            return res
        res.count("held-runs")
        res.count("cli-input:%s" % desc["mode"])
        res.count("cli-exit:%s" % rr.rc)
        res["nontrivial"].append(case_key(series, desc.get("patch"), tuple(args)))
        if seed % 300 == 53:
            res["sample"] = dict(desc, args=args, exit=rr.rc)
    return res


def cli_c11(v, tier, seed):
    b = rq()
    from common import build_harness
    build_harness()
    cli.pool_run(v, c11_worker, [(seed * 1_000_003 + i, b) for i in range(n(tier, 3000, 40000))])


# ----------------------------------------------------------------------------
# C20 (CLI layer): raising --fuzz never changes a push that already succeeds


def c20_worker(item):
    seed, binary = item
    r = random.Random(seed * 961748941 + 20)
    res = Res()
    cfg = wsgen.GenConfig(p_fail=0.0, max_patches=r.choice([1, 2, 4]), max_files=3, allow_reverse=True)
    cfg.kinds = ["modify"] * 8 + ["create", "delete"]
    cfg.ctx_choices = [0, 1, 2, 3, 3, 3]
    ws = wsgen.generate(seed, cfg)
    # drift the starting tree: insert lines elsewhere, alter lines (some hunks then need fuzz or an offset)
    t0 = {}
    drifted = 0
    for p, (data, mode) in ws.trees[0].items():
        lines = wsgen.split_lines(data)
        if lines and r.random() < 0.8:
            for _ in range(r.randint(1, 3)):
                pos = r.randint(0, len(lines))
                x = r.random()
                if x < 0.5:
                    lines[pos:pos] = [b"drift %d\n" % r.randint(0, 9) for _ in range(r.randint(1, 4))]
                elif x < 0.8 and pos < len(lines):
                    lines[pos] = b"altered %d\n" % r.randint(0, 9)
                elif pos < len(lines):
                    del lines[pos]
            for i in range(len(lines) - 1):
                if not lines[i].endswith(b"\n"):
                    lines[i] += b"\n"
            drifted += 1
        t0[p] = (b"".join(lines), mode)
    ws.trees[0] = t0
    threads = r.choice([1, 4])
    backup = r.choice(["always", None])

    def run(fz, tag):
        w = os.path.join(scr, "w-%s" % tag)
        runner.copy_ws(orig, w)
        a = base_args(threads=threads, backup=backup, verbosity="-q") + (["-F", str(fz)] if fz is not None else []) + ["push", "-a"]
        rr = runner.run_rq(binary, w, a)
        return rr, cli.observe(w), a

    with Scratch("c20") as scr:
        orig = os.path.join(scr, "ws.orig")
        wsgen.materialize(ws, orig, applied=0)
        f0 = None
        base = None
        for fz in (0, 1, 2, 3):
            rr, o, a = run(fz, "f%d" % fz)
            res["evals"] += 1
            if rr.timed_out:
                res["inconclusive"] = "watchdog"
                return res
            if rr.crashed():
                res.viol({"engine": "cli", "class": "crash", "rc": str(rr.rc), "where": cli.crash_site(rr.err)}, rr.err.decode("utf-8", "replace")[-300:], orig, [binary] + a)
                return res
            if rr.rc == 0:
                f0, base = fz, (rr, o, a)
                break
        if f0 is None:
            res.count("series-that-needs-more-than-fuzz-3-(unjudged)")
            return res
        res.count("F0=%d" % f0)
        huge = r.choice([2 ** 32, 10 ** 18, 2 ** 63 - 1, 2 ** 63, 2 ** 64 - 1])   # "unlimited" as a user would write it
        res.count("huge-limit-compared")
        for fz in [x for x in (1, 2, 3, 4, 10, 1000, huge) if x > f0]:
            rr, o, a = run(fz, "g%d" % fz)
            res["evals"] += 1
            if rr.timed_out:
                res["inconclusive"] = "watchdog"
                return res
            what = None
            if rr.rc != 0:
                what = "fails-with-higher-limit"
            elif o["tree"] != base[1]["tree"] or o["dirs"] != base[1]["dirs"]:
                what = "tree-changes-with-higher-limit"
            elif o["pc"] != base[1]["pc"]:
                what = "metadata-changes-with-higher-limit"
            if what:
                res.viol({"engine": "cli", "class": what}, "applies completely with -F %d; with -F %d: exit %s" % (f0, fz, rr.rc), orig, [binary] + a, extra={"base": base[2], "workspace": ws.describe()})
                return res
        res.count("held-workspaces")
        if f0 >= 1 or drifted:
            res["nontrivial"].append(case_key(cli.ws_shape_key(ws), tuple(sorted(t0.items())), threads))
        if f0 >= 1:
            res.count("F0>=1")
        if seed % 300 == 59:
            res["sample"] = {"workspace": ws.describe(), "F0": f0, "limits_compared": [x for x in (1, 2, 3, 4, 10, 1000) if x > f0], "threads": threads}
    return res


def cli_c20(v, tier, seed):
    b = rq()
    cli.pool_run(v, c20_worker, [(seed * 1_000_003 + i, b) for i in range(n(tier, 1500, 25000))])


# ----------------------------------------------------------------------------
# sanitizer layers for CLI properties (thorough tier)


def c06_tsan_worker(item):
    import re
    seed, binary, tsan = item
    r = random.Random(seed * 1000003 + 66)
    res = Res()
    cfg = wsgen.GenConfig(p_fail=0.6, max_patches=r.choice([3, 6, 10]), max_files=r.choice([3, 6, 8]), max_ops=3)
    cfg.p_early_poison = 0.3
    cfg.p_second_fail = 0.5
    ws = wsgen.generate(seed, cfg)
    nthreads = r.choice([2, 4, 8, 16])
    a_par = base_args(threads=nthreads, backup=r.choice(["always", None]), verbosity=r.choice(["-q", None])) + ["push", "-a"]
    with Scratch("c06t") as scr:
        orig, work = fresh(scr, ws, 0)
        env = {"TSAN_OPTIONS": "halt_on_error=0 exitcode=66 second_deadlock_stack=1"}
        if r.random() < 0.5:
            sp = os.path.join(scr, "sched.txt")
            with open(sp, "w") as f:
                f.write("delay apply-begin:* %d\ndelay save-create:* %d\ndelay save-unlink:* %d\n" % (r.choice([0, 1, 2]), r.choice([0, 1]), r.choice([0, 1])))
            env["RAPIDQUILT_VERIF_SCHED"] = sp
        rr = runner.run_rq(tsan, work, a_par, env_extra=env, timeout=300)
        res["evals"] = 1
        if rr.timed_out:
            res["inconclusive"] = "watchdog (tsan)"
            return res
        err = rr.err.decode("utf-8", "replace")
        if "ThreadSanitizer" in err or rr.rc == 66:
            m = re.search(r"WARNING: ThreadSanitizer: ([^\n(]+)", err)
            frames = re.findall(r"#\d+ (\S+) [^\n]*?(src/[\w/]+\.rs):(\d+)", err)
            first = "%s:%s" % (frames[0][1], frames[0][0]) if frames else "?"
            res.viol({"class": "thread-sanitizer-report", "engine": "tsan", "kind": (m.group(1).strip() if m else "?"), "first_repo_frame": first},
                     "ThreadSanitizer: %s" % err[-1500:], orig, [tsan] + a_par)
            return res
        if rr.rc not in (0, 1):
            res.viol({"class": "crash", "engine": "tsan", "rc": str(rr.rc)}, err[-400:], orig, [tsan] + a_par)
            return res
        res.count("tsan-runs-without-report")
        res["nontrivial"].append(case_key("tsan", cli.ws_shape_key(ws), nthreads))
    return res


def san_c06(v, tier, seed):
    if tier == Q:
        return
    from common import build_tsan_binary
    b = rq()
    t = build_tsan_binary()
    cli.pool_run(v, c06_tsan_worker, [(seed * 1_000_003 + i, b, t) for i in range(600)])


def memcheck_worker(item):
    """--mmap workloads under valgrind memcheck: a read of an unmapped file or a write through the mapping shows up here"""
    seed, binary, prop = item
    r = random.Random(seed * 1000003 + 99)
    res = Res()
    cfg = wsgen.GenConfig(p_fail=0.4, max_patches=r.choice([1, 3, 5]))
    cfg.p_early_poison = 0.3
    ws = wsgen.generate(seed, cfg)
    threads = r.choice([1, 4])
    args = base_args(threads=threads, backup=r.choice(["always", None]), verbosity="-q") + ["--mmap", "push", "-a"]
    with Scratch("mc") as scr:
        orig, work = fresh(scr, ws, 0)
        log = os.path.join(scr, "vg.log")
        rr = runner.run_rq(binary, work, args, pre=["valgrind", "-q", "--error-exitcode=99", "--log-file=" + log], timeout=600)
        res["evals"] = 1
        if rr.timed_out:
            res["inconclusive"] = "watchdog (valgrind)"
            return res
        vg = open(log, "r", errors="replace").read() if os.path.exists(log) else ""
        if rr.rc == 99 or "Invalid " in vg or "Process terminating" in vg:
            import re
            m = re.search(r"== (Invalid [^\n]+|Process terminating[^\n]+|Syscall param[^\n]+)", vg)
            res.viol({"class": "memcheck-report", "engine": "valgrind", "kind": (m.group(1)[:40] if m else "?")}, "valgrind: %s" % vg[-1500:], orig, [binary] + args)
            return res
        out = cli.check_push_outcome(res, ws, work, rr, 0, len(ws.patches), {"engine": "valgrind", "driver": "seq" if threads == 1 else "par"}, [binary] + args)
        if out:
            res.count("memcheck-runs-clean-and-correct")
            res["nontrivial"].append(case_key("vg", cli.ws_shape_key(ws), threads))
    return res


def san_c14(v, tier, seed):
    if tier == Q:
        return
    b = rq()
    cli.pool_run(v, memcheck_worker, [(seed * 1_000_003 + i, b, "C14") for i in range(400)])


def san_c15(v, tier, seed):
    if tier == Q:
        return
    b = rq()
    cli.pool_run(v, memcheck_worker, [(seed * 1_000_003 + 500_000 + i, b, "C15") for i in range(400)])


# ----------------------------------------------------------------------------
# generator honesty: lib/udiff.py against GNU patch (not a property check; ./check selftest)


def selftest_udiff(nrounds=3000, seed=1):
    """For random (A, B, context): GNU patch applied to A with my rendering must give B, and -R on B must give A.
    GNU patch is NOT an oracle for rapidquilt; this only guards the ground truth of the CLI workloads."""
    import subprocess
    import tempfile
    import udiff
    r = random.Random(seed)
    bad = 0
    with tempfile.TemporaryDirectory(prefix="rqverif-selftest-", dir="/dev/shm" if os.path.isdir("/dev/shm") else None) as d:
        for i in range(nrounds):
            a = wsgen.gen_content(r, r.choice([0, 3, 10, 40]), allow_bytes=False)
            b = wsgen.mutate_content(r, a, 5) if r.random() < 0.85 else wsgen.gen_content(r, 20, allow_bytes=False)
            if a == b:
                continue
            ctx = r.choice([0, 1, 2, 3, 5])
            hunks = udiff.diff_hunks(udiff.split_lines(a), udiff.split_lines(b), ctx)
            text = b"--- f\n+++ f\n" + b"".join(h.render() for h in hunks)
            for rev in (False, True):
                fp = os.path.join(d, "f")
                with open(fp, "wb") as f:
                    f.write(b if rev else a)
                with open(os.path.join(d, "p.diff"), "wb") as f:
                    f.write(text)
                p = subprocess.run(["patch", "-p0", "-s", "-f", "--no-backup-if-mismatch"] + (["-R"] if rev else []) + ["-i", "p.diff"], cwd=d, stdout=subprocess.PIPE, stderr=subprocess.STDOUT)
                got = open(fp, "rb").read() if os.path.exists(fp) else b""
                want = a if rev else b
                if p.returncode != 0 or got != want or b"offset" in p.stdout or b"fuzz" in p.stdout:
                    bad += 1
                    if bad <= 3:
                        print("selftest mismatch: ctx=%d rev=%s rc=%s out=%r\nA=%r\nB=%r\npatch=%r" % (ctx, rev, p.returncode, p.stdout[-200:], a[:200], b[:200], text[:400]))
    print("selftest udiff vs GNU patch: %d rounds, %d mismatches" % (nrounds, bad))
    return bad


def selftest_harness_renderer(n=1500, seed=1):
    """The harness's own LCS diff renderer (used by C01 lib layer) against GNU patch."""
    import subprocess
    import tempfile
    from common import build_harness
    hb = build_harness()
    bad = 0
    with tempfile.TemporaryDirectory(prefix="rqverif-selftest-", dir="/dev/shm" if os.path.isdir("/dev/shm") else None) as d:
        subprocess.run([hb, "export", "--gen", "pair", "--seed", str(seed), "--count", str(n), "--dir", os.path.join(d, "cases")], check=True, stdout=subprocess.DEVNULL)
        for i in range(n):
            base = os.path.join(d, "cases", str(i))
            if not os.path.exists(base + ".patch"):
                continue
            text = open(base + ".patch", "rb").read()
            if b"@@ -0,0 " in text or b" +0,0 @@" in text:
                continue  # creations / deletions: GNU patch's handling of /dev/null and empty files is not what is being compared
            w = os.path.join(d, "w")
            shutil_rm(w)
            os.makedirs(w)
            if os.path.exists(base + ".file"):
                shutil_copy(base + ".file", os.path.join(w, "f"))
            want = open(base + ".expect", "rb").read() if os.path.exists(base + ".expect") else None
            p = subprocess.run(["patch", "-p1", "-s", "-f", "--no-backup-if-mismatch"] + (["-R"] if os.path.exists(base + ".rev") else []) + ["-i", base + ".patch"], cwd=w, stdout=subprocess.PIPE, stderr=subprocess.STDOUT)
            got = open(os.path.join(w, "f"), "rb").read() if os.path.exists(os.path.join(w, "f")) else None
            if p.returncode != 0 or got != want or b"offset" in p.stdout or b"fuzz" in p.stdout:
                bad += 1
                if bad <= 3:
                    print("harness renderer mismatch case %d: rc=%s out=%r" % (i, p.returncode, p.stdout[-200:]))
    print("selftest harness renderer vs GNU patch: %d cases, %d mismatches" % (n, bad))
    return bad


def shutil_copy(a, b):
    import shutil
    shutil.copy(a, b)
