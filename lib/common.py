"""Shared infrastructure of the /verif checks: paths, locked builds, scratch
space, verdict bookkeeping (violations, known findings, replays), evidence."""

import fcntl
import hashlib
import json
import os
import shutil
import subprocess
import sys
import tempfile
import time

VERIF = os.path.dirname(os.path.dirname(os.path.abspath(__file__)))
REPO = os.environ.get("VERIF_REPO", "/repo")
BUILD = os.path.join(VERIF, ".build")
GUARD = "opensuse_rapidquilt_verif"
NCPU = max(1, min(16, os.cpu_count() or 1))

_tag = "" if REPO == "/repo" else "-" + hashlib.sha1(REPO.encode()).hexdigest()[:10]
HARNESS_BIN = os.path.join(BUILD, "harness" + _tag, "release", "rqh")
RQ_BIN = os.path.join(BUILD, "bin" + _tag, "release", "rapidquilt")
SHIM_SO = os.path.join(BUILD, "faultshim.so")


class Inconclusive(Exception):
    pass


def log(*a):
    print(*a, file=sys.stderr, flush=True)


def clean_env(extra=None):
    env = {
        "PATH": os.environ.get("PATH", "/usr/bin:/bin"),
        "HOME": os.environ.get("HOME", "/root"),
        "LANG": "C",
        "LC_ALL": "C",
        "CARGO_NET_OFFLINE": "true",
        "NO_COLOR": "1",
    }
    for k in ("RUSTUP_HOME", "CARGO_HOME", "RUSTUP_TOOLCHAIN"):
        if k in os.environ:
            env[k] = os.environ[k]
    if extra:
        env.update(extra)
    return env


class BuildLock:
    def __init__(self, name):
        os.makedirs(BUILD, exist_ok=True)
        self.path = os.path.join(BUILD, name + ".lock")

    def __enter__(self):
        self.f = open(self.path, "w")
        fcntl.flock(self.f, fcntl.LOCK_EX)
        return self

    def __exit__(self, *a):
        fcntl.flock(self.f, fcntl.LOCK_UN)
        self.f.close()


def _run_build(cmd, cwd, env, what):
    t0 = time.time()
    p = subprocess.run(cmd, cwd=cwd, env=env, stdout=subprocess.PIPE, stderr=subprocess.STDOUT, text=True)
    if p.returncode != 0:
        tail = "\n".join(p.stdout.splitlines()[-40:])
        raise Inconclusive("build of %s failed:\n%s" % (what, tail))
    log("[build] %s ok in %.1fs" % (what, time.time() - t0))


def harness_dir():
    """The harness crate names /repo as a path dependency.  For a run against another copy of the repository
    (VERIF_REPO, used by background runs on a snapshot) a copy of the crate with that path is generated."""
    hdir = os.path.join(VERIF, "harness")
    if REPO == "/repo":
        return hdir, os.path.join(BUILD, "harness")
    tag = hashlib.sha1(REPO.encode()).hexdigest()[:10]
    alt = os.path.join(BUILD, "harness-src-" + tag)
    os.makedirs(alt, exist_ok=True)
    shutil.copytree(os.path.join(hdir, "src"), os.path.join(alt, "src"), dirs_exist_ok=True)
    toml = open(os.path.join(hdir, "Cargo.toml")).read().replace('path = "/repo"', 'path = "%s"' % REPO)
    if not os.path.exists(os.path.join(alt, "Cargo.toml")) or open(os.path.join(alt, "Cargo.toml")).read() != toml:
        open(os.path.join(alt, "Cargo.toml"), "w").write(toml)
    return alt, os.path.join(BUILD, "harness-" + tag)


def _ensure_locks(hdir):
    """The harness resolves the same dependency versions as the repository: its Cargo.lock is a copy of the
    repository's (committed under harness/ so that a snapshot of the repository without the git-ignored lock
    file can be given it back)."""
    repo_lock = os.path.join(REPO, "Cargo.lock")
    committed = os.path.join(VERIF, "harness", "Cargo.lock")
    dst = os.path.join(hdir, "Cargo.lock")
    if not os.path.exists(repo_lock) and os.path.exists(committed) and REPO != "/repo":
        shutil.copy(committed, repo_lock)
    if not os.path.exists(dst):
        shutil.copy(repo_lock if os.path.exists(repo_lock) else committed, dst)


def build_harness():
    """(Re)build the in-process harness against /repo's working tree."""
    global HARNESS_BIN
    with BuildLock("harness"):
        hdir, tdir = harness_dir()
        _ensure_locks(hdir)
        cmd = ["cargo", "build", "--release", "--offline", "--target-dir", tdir]
        env = clean_env()
        _run_build(cmd, hdir, env, "harness")
    return os.path.join(tdir, "release", "rqh")


def build_binary(variant="bin", extra_rustflags=""):
    """(Re)build the rapidquilt binary from /repo's working tree with the hook guard on."""
    with BuildLock(variant):
        _ensure_locks(harness_dir()[0])
        target = os.path.join(BUILD, variant + _tag)
        env = clean_env({"RUSTFLAGS": ("--cfg %s %s" % (GUARD, extra_rustflags)).strip()})
        cmd = ["cargo", "build", "--release", "--offline", "--bin", "rapidquilt",
               "--config", "profile.release.lto=false", "--config", "profile.release.debug=1",
               "--target-dir", target, "--manifest-path", os.path.join(REPO, "Cargo.toml")]
        _run_build(cmd, REPO, env, "rapidquilt (%s, hooks on)" % variant)
    return os.path.join(target, "release", "rapidquilt")


def build_shim():
    with BuildLock("shim"):
        src = os.path.join(VERIF, "shim", "faultshim.c")
        if (not os.path.exists(SHIM_SO)) or os.path.getmtime(SHIM_SO) < os.path.getmtime(src):
            _run_build(["cc", "-O2", "-shared", "-fPIC", "-o", SHIM_SO, src, "-ldl", "-lpthread"], VERIF, clean_env(), "faultshim")
    return SHIM_SO


_scratch = None


def scratch_root():
    """Fresh scratch directory on tmpfs (falls back to $TMPDIR); removed at exit."""
    global _scratch
    if _scratch is None:
        base = "/dev/shm" if os.path.isdir("/dev/shm") and os.access("/dev/shm", os.W_OK) else tempfile.gettempdir()
        _scratch = tempfile.mkdtemp(prefix="rqverif-%d-" % os.getpid(), dir=base)
        import atexit
        atexit.register(lambda: shutil.rmtree(_scratch, ignore_errors=True))
    return _scratch


# ----------------------------------------------------------------------------
# verdict bookkeeping


def load_known():
    p = os.path.join(VERIF, "known_findings.json")
    if not os.path.exists(p):
        return []
    with open(p) as f:
        return json.load(f)["findings"]


def sig_matches(match, sig):
    for k, want in match.items():
        have = sig.get(k)
        if isinstance(want, list):
            if have not in want:
                return False
        elif have != want:
            return False
    return True


class Verdict:
    """Collects what a check run observed and turns it into exit status,
    VIOLATION / KNOWN-FINDING lines, replay directories and the evidence file."""

    def __init__(self, prop, tier, seed, level="exploration"):
        self.prop = prop
        self.tier = tier
        self.seed = seed
        self.level = level
        self.t0 = time.time()
        self.evaluations = 0
        self.nontrivial = set()
        self.nontrivial_extra = 0
        self.samples = []
        self.counters = {}
        self.violations = []  # (sig, detail, replay payload)
        self.known_hits = {}
        self.inconclusive = None
        self.rule = ""
        self.assumptions = []
        self.extra = {}
        self.known = [k for k in load_known() if k.get("property") == prop]
        self._viol_seen = {}

    def count(self, key, n=1):
        self.counters[key] = self.counters.get(key, 0) + n

    def add_sample(self, s, limit=4):
        if len(self.samples) < limit:
            self.samples.append(s)

    def note_nontrivial(self, key):
        self.nontrivial.add(key)

    def violation(self, sig, detail, payload=None, files=None):
        """sig: dict of structured fields (no free text); payload: dict stored in the replay's meta.json;
        files: {name: bytes} stored in the replay directory."""
        sig = dict(sig)
        sig["property"] = self.prop
        for k in self.known:
            if k.get("status") == "known" and sig_matches(k["match"], sig):
                self.known_hits[k["what"]] = self.known_hits.get(k["what"], 0) + 1
                return "known"
        key = json.dumps(sig, sort_keys=True)
        n = self._viol_seen.get(key, 0)
        self._viol_seen[key] = n + 1
        if n < 3:
            self.violations.append((sig, detail, payload or {}, files or {}))
        return "new"

    def finish(self, floor_ok=True, floor_msg=""):
        wall = time.time() - self.t0
        distinct = len(self.nontrivial) + self.nontrivial_extra
        cov = {
            "evaluations": int(self.evaluations),
            "distinct_nontrivial": int(distinct),
            "rule": self.rule,
            "samples": self.samples[:6] if self.samples else [],
            "observed": self.counters,
        }
        cov.update(self.extra)
        nviol = sum(self._viol_seen.values())
        ev = {
            "property_id": self.prop,
            "tier": self.tier,
            "seed": int(self.seed),
            "level": self.level,
            "coverage": cov,
            "assumptions": self.assumptions,
            "wall_s": round(wall, 2),
            "violations": int(nviol),
            "known_findings_reproduced": self.known_hits,
            "verdict": "held",
        }
        # known findings listed for this property are always reported (with the number of reproductions)
        for k in self.known:
            if k.get("status") == "known":
                print("KNOWN-FINDING: property=%s %s reproduced=%d" % (self.prop, k["what"], self.known_hits.get(k["what"], 0)))
        status = 0
        if nviol:
            ev["verdict"] = "violated"
            status = 1
            rdir = os.path.join(VERIF, "replays", self.prop)
            shutil.rmtree(rdir, ignore_errors=True)  # only the replays of this run are kept
            for sig, detail, payload, files in self.violations:
                h = hashlib.sha1((json.dumps(sig, sort_keys=True) + detail).encode("utf-8", "replace")).hexdigest()[:12]
                d = os.path.join(rdir, h)
                os.makedirs(d, exist_ok=True)
                meta = {"property": self.prop, "signature": sig, "detail": detail, "tier": self.tier, "seed": self.seed}
                meta.update(payload)
                with open(os.path.join(d, "meta.json"), "w") as f:
                    json.dump(meta, f, indent=1, default=repr)
                for name, data in files.items():
                    mode = "wb" if isinstance(data, (bytes, bytearray)) else "w"
                    with open(os.path.join(d, name), mode) as f:
                        f.write(data)
                print("VIOLATION property=%s replay=%s" % (self.prop, d))
                log("  signature: %s" % json.dumps(sig, sort_keys=True))
                log("  detail: %s" % detail[:1500])
        elif self.inconclusive or not floor_ok:
            reason = self.inconclusive or floor_msg
            ev["verdict"] = "inconclusive"
            ev["inconclusive_reason"] = reason
            print("INCONCLUSIVE property=%s reason=%s" % (self.prop, reason))
            status = 3
        write_evidence(self.prop, ev)
        log("[%s] %s: evaluations=%d distinct_nontrivial=%d violations=%d known=%s wall=%.1fs" % (
            self.prop, ev["verdict"], self.evaluations, distinct, nviol, self.known_hits, wall))
        return status


def write_evidence(prop, ev):
    d = os.path.join(VERIF, "evidence")
    os.makedirs(d, exist_ok=True)
    tmp = os.path.join(d, ".%s.json.tmp" % prop)
    with open(tmp, "w") as f:
        json.dump(ev, f, indent=1, sort_keys=True, default=repr)
    os.replace(tmp, os.path.join(d, "%s.json" % prop))


def get_seed():
    try:
        return int(os.environ.get("VERIF_SEED", "1"))
    except ValueError:
        return 1


HARNESS_CHECKED_BIN = os.path.join(BUILD, "harness" + _tag, "checked", "rqh")


def build_harness_checked():
    """harness + libpatch with overflow checks and debug assertions on (arithmetic sanitizer)"""
    with BuildLock("harness"):
        hdir, tdir = harness_dir()
        _ensure_locks(hdir)
        _run_build(["cargo", "build", "--profile", "checked", "--offline", "--target-dir", tdir], hdir, clean_env(), "harness (overflow-checks, debug-assertions)")
    return os.path.join(tdir, "checked", "rqh")


def build_tsan_binary():
    """rapidquilt with ThreadSanitizer (nightly, -Zbuild-std); hooks on"""
    with BuildLock("tsan"):
        target = os.path.join(BUILD, "tsan" + _tag)
        env = clean_env({"RUSTFLAGS": "-Zsanitizer=thread --cfg has_std --cfg %s" % GUARD})
        cmd = ["cargo", "+nightly", "build", "--release", "--offline", "-Zbuild-std", "--target", "x86_64-unknown-linux-gnu", "--bin", "rapidquilt",
               "--config", "profile.release.lto=false", "--target-dir", target, "--manifest-path", os.path.join(REPO, "Cargo.toml")]
        _run_build(cmd, REPO, env, "rapidquilt (ThreadSanitizer)")
    return os.path.join(target, "x86_64-unknown-linux-gnu", "release", "rapidquilt")
