#!/bin/bash
# Confirm a sub-agent's seeded change myself, in its scratch worktree (outside /repo and /verif):
#   1. patch applies, 49 tests pass with it, hook build compiles
#   2. demo fails with the change, passes without it
# usage: seedaccept.sh <ID>   (worktree /tmp/mut/<ID>, deliverables /tmp/mut/<ID>-out)
set -u
ID=$1; WT=/tmp/mut/$ID; OUT=/tmp/mut/$ID-out
export CARGO_NET_OFFLINE=true CARGO_TARGET_DIR=$WT/target
cd $WT || exit 2
git checkout -q -- . ; git status --short | grep -v '^??' && { echo "worktree not clean"; exit 2; }
git apply $OUT/patch.diff || { echo "RESULT $ID: patch does not apply"; exit 1; }
T=$(cargo test --workspace --no-fail-fast --offline 2>&1 | grep "^test result" | awk '{s+=$4; f+=$6} END {print s" passed "f" failed"}')
echo "tests with change: $T"
RUSTFLAGS="--cfg opensuse_rapidquilt_verif" cargo build --release --offline --config profile.release.lto=false --target-dir $WT/target-hooks >/dev/null 2>&1 && echo "hook build: ok" || echo "hook build: FAILED"
cargo build --release --offline --config profile.release.lto=false >/dev/null 2>&1
cp $WT/target/release/rapidquilt /tmp/mut/$ID-mutant-bin
git checkout -q -- .
cargo build --release --offline --config profile.release.lto=false >/dev/null 2>&1
cp $WT/target/release/rapidquilt /tmp/mut/$ID-orig-bin
DEMO=$(ls $OUT/demo.sh 2>/dev/null || ls $OUT/*.sh | head -1)
( cd $OUT && timeout 600 bash $DEMO /tmp/mut/$ID-mutant-bin >/tmp/mut/$ID-demo-mut.log 2>&1 ); M=$?
( cd $OUT && timeout 600 bash $DEMO /tmp/mut/$ID-orig-bin >/tmp/mut/$ID-demo-orig.log 2>&1 ); O=$?
echo "RESULT $ID: tests [$T] demo-with-change exit $M (want != 0), demo-without exit $O (want 0)"
