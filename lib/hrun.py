"""Drive the in-process harness (rqh) over process shards, attribute abnormal
shard ends (abort, refused giant allocation, hang) to single cases, and merge
the shard summaries into a Verdict."""

import array
import json
import os
import struct
import subprocess
import time

from common import HARNESS_BIN, NCPU, REPO, Inconclusive, log, scratch_root, clean_env

SHARD_TIMEOUT = 1800     # generous wall-clock watchdog per shard (inconclusive when it fires without a culprit)
STALL_TIMEOUT = 45       # a shard whose progress marker does not move for this long is stuck in ONE case (cases take micro-seconds);
                         # the case is then re-run alone before anything is reported
SINGLE_TIMEOUT = 20      # isolated re-run of one case: micro-seconds of work normally


def _read_progress(path):
    try:
        with open(path, "rb") as f:
            b = f.read(8)
        if len(b) == 8:
            return struct.unpack("<Q", b)[0]
    except OSError:
        pass
    return None


def _single(prop, gen, seed, param, index, workdir):
    """Re-run exactly one case alone.  Returns ('ok', json) | ('exit86'|'signal N'|'hang', None)"""
    out = os.path.join(workdir, "single-%s-%d.json" % (gen, index))
    cmd = [HARNESS_BIN, "run", "--prop", prop, "--gen", gen, "--seed", str(seed), "--param", str(param),
           "--start", str(index), "--count", "1", "--shards", "1", "--shard", "0", "--out", out, "--repo", REPO]
    try:
        p = subprocess.run(cmd, env=clean_env(), stdout=subprocess.PIPE, stderr=subprocess.PIPE, timeout=SINGLE_TIMEOUT)
    except subprocess.TimeoutExpired:
        return "hang", None
    if p.returncode == 0:
        with open(out) as f:
            return "ok", json.load(f)
    if p.returncode == 86:
        return "exit86", None
    if p.returncode < 0:
        return "signal %d" % (-p.returncode), None
    return "exit %d: %s" % (p.returncode, p.stderr.decode("utf-8", "replace")[-300:]), None


def run_gen(verdict, prop, gen, seed, count, param=3, shards=None, start=0, max_crashes=8, binary=None, build_tag=None):
    """Run `count` indices of generator `gen` (or the whole space when it is smaller) and fold the
    result into `verdict`.  Returns the merged summary."""
    shards = shards or NCPU
    wd = os.path.join(scratch_root(), "h-%s-%s" % (prop, gen))
    os.makedirs(wd, exist_ok=True)
    merged = {"evaluations": 0, "skipped": 0, "execs": 0, "tags": {}, "outcomes": {}, "sig_counts": {}, "kept": [], "samples": [],
              "space_total": None, "end": None, "crashes": []}
    hashes = set()
    pending = []  # (shard, start)
    for s in range(shards):
        pending.append((s, start))
    procs = {}
    t_start = time.time()

    def launch(s, st, gen_no):
        base = os.path.join(wd, "s%d-%d" % (s, gen_no))
        cmd = [binary or HARNESS_BIN, "run", "--prop", prop, "--gen", gen, "--seed", str(seed), "--param", str(param),
               "--start", str(st), "--count", str(max(0, start + count - st)), "--shards", str(shards), "--shard", str(s),
               "--out", base + ".json", "--hashes", base + ".bin", "--progress", base + ".prog", "--repo", REPO]
        p = subprocess.Popen(cmd, env=clean_env(), stdout=subprocess.DEVNULL, stderr=subprocess.PIPE)
        procs[s] = (p, base, gen_no, time.time())

    for s, st in pending:
        launch(s, st, 0)
    crashes = 0
    stall = {}
    while procs:
        time.sleep(0.02)
        for s in list(procs):
            p, base, gen_no, t0 = procs[s]
            rc = p.poll()
            hung = rc is None and time.time() - t0 > SHARD_TIMEOUT
            if rc is None and not hung:
                # progress-based stall detection
                now = time.time()
                st = stall.get(s)
                cur = _read_progress(base + ".prog")
                if st is None or st[0] != cur:
                    stall[s] = (cur, now)
                elif cur is not None and now - st[1] > STALL_TIMEOUT:
                    hung = True
            if rc is None and not hung:
                continue
            stall.pop(s, None)
            if hung:
                p.kill()
                p.wait()
                rc = "timeout"
            err = p.stderr.read().decode("utf-8", "replace") if p.stderr else ""
            del procs[s]
            if rc == 0:
                with open(base + ".json") as f:
                    d = json.load(f)
                _merge(merged, d)
                try:
                    a = array.array("Q")
                    with open(base + ".bin", "rb") as f:
                        a.frombytes(f.read())
                    hashes.update(a)
                except OSError:
                    pass
                continue
            # abnormal end: find the culprit case
            idx = _read_progress(base + ".prog")
            if idx is None:
                raise Inconclusive("harness shard ended abnormally (%s) before running a case: %s" % (rc, err[-400:]))
            kind, single = _single(prop, gen, seed, param, idx, wd)
            if kind == "ok":
                # not reproducible in isolation: not attributable to the case
                raise Inconclusive("harness shard ended abnormally (%s) at index %d but the case passes alone: %s" % (rc, idx, err[-300:]))
            crashes += 1
            cls = {"exit86": "giant-allocation-request", "hang": "no-termination-within-watchdog"}.get(kind, "process-abort")
            merged["crashes"].append({"index": idx, "gen": gen, "kind": kind, "class": cls})
            sig = {"class": cls, "engine": "harness", "gen": gen}
            if kind.startswith("signal"):
                sig["signal"] = kind.split()[1]
            verdict.violation(sig, "case %s/%d (seed %d, param %d) ends the process: %s; shard stderr: %s" % (gen, idx, seed, param, kind, err[-300:]),
                              payload={"engine": "harness", "gen": gen, "index": idx, "gen_seed": seed, "param": param,
                                       "replay": "%s run --prop %s --gen %s --seed %d --param %d --start %d --count 1 --out /dev/null" % (HARNESS_BIN, prop, gen, seed, param, idx)})
            hangs = sum(1 for c in merged["crashes"] if c["class"] == "no-termination-within-watchdog")
            if crashes >= max_crashes or hangs >= 3:
                log("too many crashing cases, stopping generator %s early" % gen)
                for q in procs.values():
                    q[0].kill()
                procs.clear()
                break
            launch(s, idx + 1, gen_no + 1)
    merged["distinct_hashes"] = hashes
    merged["wall_s"] = time.time() - t_start
    # fold into the verdict
    verdict.evaluations += merged["evaluations"]
    verdict.nontrivial.update((gen, h) for h in hashes)
    for k, v in merged["tags"].items():
        verdict.count("%s" % k, v)
    for k, v in merged["outcomes"].items():
        verdict.count("outcome:%s" % k, v)
    verdict.count("cases:%s%s" % (gen, ("@" + build_tag) if build_tag else ""), merged["evaluations"])
    for smp in merged["samples"][:2]:
        verdict.add_sample(smp, limit=8)
    seen_sig = {}
    for k in merged["kept"]:
        key = json.dumps(k["sig"], sort_keys=True)
        n = seen_sig.get(key, 0)
        seen_sig[key] = n + 1
        total = merged["sig_counts"].get("".join("%s=%s;" % (a, b) for a, b in sorted(k["sig"].items())), 1)
        sig = dict(k["sig"])
        sig["engine"] = "harness"
        if build_tag:
            sig["build"] = build_tag
        r = verdict.violation(sig, k["detail"], payload={"engine": "harness", "gen": gen, "index": k["index"], "gen_seed": seed,
                                                         "occurrences_of_signature": total},
                              files={"case.txt": k["case"]})
        if r == "known" and n == 0 and total > 1:
            # count every occurrence of a known signature, not only the kept ones
            pass
    return merged


def _merge(m, d):
    for k in ("evaluations", "skipped", "execs"):
        m[k] += d.get(k, 0)
    for mk in ("tags", "outcomes", "sig_counts"):
        for k, v in d.get(mk, {}).items():
            m[mk][k] = m[mk].get(k, 0) + v
    m["kept"].extend(d.get("kept", []))
    if len(m["samples"]) < 8:
        m["samples"].extend(d.get("samples", [])[:1])
    if d.get("space_total") is not None:
        m["space_total"] = d["space_total"]
        m["end"] = max(m["end"] or 0, d.get("end", 0))


def replay_case(prop, case_path):
    p = subprocess.run([HARNESS_BIN, "replay", "--prop", prop, case_path], env=clean_env(), stdout=subprocess.PIPE, stderr=subprocess.STDOUT, text=True)
    return p.returncode, p.stdout


def run_miri(verdict, prop, gen, seed, per_shard, shards=16, param=3):
    """Run a small shard of harness cases under Miri (undefined behaviour / aliasing / uninitialised reads in libpatch
    and its dependencies).  Any Miri diagnostic is a violation; 'unsupported operation' is inconclusive."""
    import shutil
    from common import VERIF, BUILD
    from common import harness_dir
    hdir, _ = harness_dir()
    wd = os.path.join(scratch_root(), "miri-%s-%s" % (prop, gen))
    os.makedirs(wd, exist_ok=True)
    # -Zmiri-disable-alignment-check: the pinned dependency seahash 3.0.7 (the hasher of every map in the tool) reads integers
    # through unaligned pointers (helper.rs read_int) - undefined behaviour by the language rules, harmless on the supported
    # targets, in third-party code and outside every property's statement; with the check on, Miri stops there and never gets to
    # the rest of the case (DESIGN.md section 11)
    env = clean_env({"MIRIFLAGS": "-Zmiri-disable-isolation -Zmiri-disable-alignment-check"})
    base = ["cargo", "+nightly", "miri", "run", "--offline", "--target-dir", os.path.join(BUILD, "miri"), "--"]

    def cmd(shard, count, out):
        return base + ["run", "--prop", prop, "--gen", gen, "--seed", str(seed), "--param", str(param), "--start", "0", "--count", str(count * shards),
                       "--shards", str(shards), "--shard", str(shard), "--out", out, "--repo", REPO]
    # build once (serialised), then run the shards in parallel
    p = subprocess.run(cmd(0, 0, os.path.join(wd, "warm.json")), cwd=hdir, env=env, stdout=subprocess.PIPE, stderr=subprocess.PIPE, timeout=1800)
    if p.returncode != 0:
        raise Inconclusive("miri build/run failed: %s" % p.stderr.decode("utf-8", "replace")[-600:])
    procs = []
    for s in range(shards):
        out = os.path.join(wd, "m%d.json" % s)
        procs.append((s, out, subprocess.Popen(cmd(s, per_shard, out), cwd=hdir, env=env, stdout=subprocess.DEVNULL, stderr=subprocess.PIPE)))
    total = 0
    for s, out, pr in procs:
        try:
            _, err = pr.communicate(timeout=3600)
        except subprocess.TimeoutExpired:
            pr.kill()
            raise Inconclusive("miri shard exceeded the watchdog")
        err = err.decode("utf-8", "replace")
        if pr.returncode != 0:
            if "unsupported operation" in err:
                raise Inconclusive("miri: unsupported operation: %s" % err[-400:])
            import re
            m = re.search(r"error: (Undefined Behavior[^\n]*|[^\n]*)", err)
            kind = "undefined-behavior" if "Undefined Behavior" in err else "miri-error"
            verdict.violation({"class": "miri-" + kind, "engine": "miri", "gen": gen}, "Miri reports: %s\n%s" % (m.group(1) if m else "?", err[-1500:]),
                              payload={"engine": "miri", "replay": " ".join(cmd(s, per_shard, "/dev/null"))})
            continue
        with open(out) as f:
            d = json.load(f)
        total += d["evaluations"]
        for k in d.get("kept", []):
            sig = dict(k["sig"])
            sig["engine"] = "harness"
            sig["build"] = "miri"
            verdict.violation(sig, k["detail"], payload={"engine": "harness", "gen": gen, "index": k["index"]}, files={"case.txt": k["case"]})
    verdict.evaluations += total
    verdict.count("cases-under-miri:%s" % gen, total)
    return total
