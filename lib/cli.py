"""Common machinery of the CLI-level checks: a process pool of workers, each
generating workspaces with ground truth, running the hooked binary on them and
applying an oracle; results are folded into the Verdict."""

import hashlib
import json
import multiprocessing
import os
import random
import shutil
import time
import traceback

import runner
import wsgen
from common import NCPU, RQ_BIN, Inconclusive, log, scratch_root


def _init_worker():
    pass


def _call(args):
    fn, item = args
    try:
        res = fn(item)
        # what is needed to run exactly this case again (./check replay)
        for v in res.get("violations", []):
            v.setdefault("payload", {})
            v["payload"].setdefault("worker", fn.__name__)
            if isinstance(item, tuple) and item and isinstance(item[0], int):
                v["payload"].setdefault("worker_seed", item[0])
        return res
    except Exception:
        return {"error": traceback.format_exc()}


def pool_run(verdict, fn, items, procs=None, budget_s=None):
    """Run fn(item) for every item on a process pool; fold the returned dicts into the verdict.
    A worker result may contain: evals, nontrivial (list of hashable keys), counters {k: n},
    violations [{sig, detail, payload, files}], sample, inconclusive (str), error (traceback)."""
    procs = procs or NCPU
    t0 = time.time()
    errors = 0
    done = 0
    with multiprocessing.get_context("fork").Pool(procs, initializer=_init_worker) as pool:
        for res in pool.imap_unordered(_call, [(fn, it) for it in items], chunksize=1):
            done += 1
            fold(verdict, res)
            if "error" in res:
                errors += 1
                if errors <= 3:
                    log(res["error"])
            if budget_s and time.time() - t0 > budget_s:
                pool.terminate()
                verdict.count("stopped-by-time-budget")
                break
    if errors:
        raise Inconclusive("%d worker errors (harness bug), first logged above" % errors)
    return done


def fold(verdict, res):
    verdict.evaluations += res.get("evals", 0)
    for k in res.get("nontrivial", []):
        verdict.note_nontrivial(k)
    for k, n in res.get("counters", {}).items():
        verdict.count(k, n)
    if res.get("sample") is not None:
        verdict.add_sample(res["sample"])
    for v in res.get("violations", []):
        verdict.violation(v["sig"], v["detail"], v.get("payload"), v.get("files"))
    if res.get("inconclusive"):
        verdict.count("inconclusive-runs")
        verdict.extra.setdefault("inconclusive_notes", [])
        if len(verdict.extra["inconclusive_notes"]) < 5:
            verdict.extra["inconclusive_notes"].append(res["inconclusive"])


class Res(dict):
    """worker result builder"""

    def __init__(self):
        super().__init__(evals=0, nontrivial=[], counters={}, violations=[])

    def count(self, k, n=1):
        self["counters"][k] = self["counters"].get(k, 0) + n

    def viol(self, sig, detail, ws_root=None, argv=None, extra=None, files=None):
        payload = {"engine": "cli", "argv": argv}
        if extra:
            payload.update(extra)
        f = dict(files or {})
        if ws_root and os.path.isdir(ws_root):
            try:
                f["workspace.tar.gz"] = runner.tar_bytes(ws_root)
            except Exception:
                pass
        self["violations"].append({"sig": sig, "detail": detail, "payload": payload, "files": f})


def case_key(*parts):
    h = hashlib.sha1()
    for p in parts:
        h.update(repr(p).encode("utf-8", "replace"))
        h.update(b"\0")
    return h.hexdigest()[:16]


def ws_shape_key(ws):
    """canonical description of a workspace for distinct counting"""
    return json.dumps(ws.describe()["patches"], sort_keys=True)


class Scratch:
    """per-worker scratch directory, removed on exit"""

    def __init__(self, tag):
        self.path = os.path.join(scratch_root(), "%s-%d-%d" % (tag, os.getpid(), random.getrandbits(32)))

    def __enter__(self):
        os.makedirs(self.path)
        return self.path

    def __exit__(self, *a):
        shutil.rmtree(self.path, ignore_errors=True)


def base_args(threads=None, backup=None, backup_count=None, verbosity="-q", extra=()):
    a = []
    if verbosity:
        a.append(verbosity)
    if threads is not None:
        a += ["--threads", str(threads)]
    if backup:
        a += ["--backup", backup]
    if backup_count is not None:
        a += ["--backup-count", str(backup_count)]
    a += list(extra)
    return a


def observe(root):
    snap = runner.snapshot(root)
    tree, dirs, pc, rej, inputs = runner.split_snapshot(snap)
    return {"tree": tree, "dirs": dirs, "pc": pc, "rej": rej, "inputs": inputs, "applied": runner.read_applied(root)}


def check_push_outcome(res, ws, root, rr, first, goal_count, cfg_sig, argv, check_rej_dirs=True):
    """The C05 oracle: exit status, applied-patches and tree against ground truth.
    Returns (k, expected_tree, fail_idx, observation) or None when the run crashed."""
    k, exp_tree, fail_idx = wsgen.expected_after(ws, first, goal_count)
    if rr.timed_out:
        res["inconclusive"] = "watchdog expired: %s" % " ".join(argv)
        return None
    if rr.crashed():
        res.viol(dict(cfg_sig, **{"class": "crash", "rc": str(rr.rc), "where": crash_site(rr.err)}),
                 "exit status %s; stderr: %s" % (rr.rc, rr.err.decode("utf-8", "replace")[-600:]), root + ".orig", argv)
        return None
    obs = observe(root)
    want_rc = 0 if fail_idx is None else 1
    if rr.rc != want_rc:
        res.viol(dict(cfg_sig, **{"class": "exit-status", "got": str(rr.rc), "want": str(want_rc)}),
                 "exit status %d, expected %d (first failing patch by construction: %s); stderr: %s" % (
                     rr.rc, want_rc, fail_idx, rr.err.decode("utf-8", "replace")[-600:]), root + ".orig", argv,
                 extra={"workspace": ws.describe()})
        return None
    want_applied = [p.name for p in ws.patches[:first + k]]
    got_applied = obs["applied"] or []
    if got_applied != want_applied:
        res.viol(dict(cfg_sig, **{"class": "applied-patches"}), "applied-patches %r, expected %r; stderr: %s" % (got_applied, want_applied, rr.err.decode("utf-8", "replace")[-500:]), root + ".orig", argv,
                 extra={"workspace": ws.describe()})
        return None
    # the bytes of applied-patches: what was there before the run (the pristine copy next to the workspace), made a complete
    # line if it was not, followed by one line per name this run recorded - no blank lines, nothing else
    def _ap(d):
        try:
            with open(os.path.join(d, ".pc", "applied-patches"), "rb") as f:
                return f.read()
        except OSError:
            return None
    prior = _ap(root + ".orig") if os.path.isdir(root + ".orig") else None
    now = _ap(root)
    if os.path.isdir(root + ".orig") and now is not None:
        pb = prior or b""
        n_prior = len([l for l in pb.split(b"\n") if l])
        added = [n.encode("utf-8", "surrogateescape") for n in want_applied[n_prior:]]
        expect = pb + (b"\n" if (pb and not pb.endswith(b"\n") and added) else b"") + b"".join(n + b"\n" for n in added)
        if now != expect and n_prior <= len(want_applied):
            res.viol(dict(cfg_sig, **{"class": "applied-patches", "what": "bytes"}), "applied-patches holds %r, expected %r (before the run: %r)" % (now[-200:], expect[-200:], pb[-100:]), root + ".orig", argv,
                     extra={"workspace": ws.describe()})
            return None
    diffs = runner.tree_diff(obs["tree"], obs["dirs"], exp_tree, check_dirs=check_rej_dirs, rej_paths=list(obs["rej"]) + [d + "/." for d in getattr(ws, "extra_dirs", ())])
    if diffs:
        cls, path, detail = diffs[0]
        res.viol(dict(cfg_sig, **{"class": "tree-differs", "diff": cls}),
                 "tree differs from the first %d patches applied: %s %s %s (%d differences); stderr: %s" % (
                     first + k, cls, path, detail, len(diffs), rr.err.decode("utf-8", "replace")[-300:]), root + ".orig", argv,
                 extra={"workspace": ws.describe(), "differences": [list(d) for d in diffs[:10]]})
        return None
    return k, exp_tree, fail_idx, obs


def crash_site(err):
    """location of a panic message, for signatures: file:line of the first 'panicked at'"""
    import re
    m = re.search(rb"panicked at '?([^\n]*?)'?, ([^\s:]+):(\d+)", err)
    if m:
        return os.path.basename(m.group(2).decode("utf-8", "replace")) + ":" + m.group(3).decode()
    m = re.search(rb"panicked at ([^\s:]+):(\d+):", err)
    if m:
        return os.path.basename(m.group(1).decode("utf-8", "replace")) + ":" + m.group(2).decode()
    return "?"
