"""Run the rapidquilt binary on a materialised workspace and observe the result."""

import os
import shutil
import stat
import subprocess

from common import clean_env

RUN_TIMEOUT = 60  # generous wall-clock watchdog per CLI run; expiry is inconclusive, never a violation


class RunResult:
    __slots__ = ("rc", "out", "err", "timed_out", "argv")

    def __init__(self, rc, out, err, timed_out, argv):
        self.rc, self.out, self.err, self.timed_out, self.argv = rc, out, err, timed_out, argv

    def crashed(self):
        return self.rc not in (0, 1)

    def failed_patch(self):
        """name in 'Patch <name> FAILED' on stderr, or None"""
        for l in self.err.splitlines():
            if l.startswith(b"Patch ") and l.endswith(b" FAILED"):
                return l[len(b"Patch "):-len(b" FAILED")].decode("utf-8", "replace")
        return None


def _preexec(nofile):
    def f():
        os.umask(0o022)
        if nofile:
            import resource
            resource.setrlimit(resource.RLIMIT_NOFILE, (nofile, nofile))
    return f


def run_rq(binary, cwd, args, env_extra=None, pre=None, timeout=RUN_TIMEOUT, nofile=None):
    """args: list of CLI arguments after the binary.  pre: argv prefix (e.g. strace ...)."""
    argv = (pre or []) + [binary] + list(args)
    env = clean_env()
    env.pop("RAPIDQUILT_THREADS", None)
    if env_extra:
        env.update(env_extra)
    try:
        p = subprocess.run(argv, cwd=cwd, env=env, stdout=subprocess.PIPE, stderr=subprocess.PIPE, timeout=timeout,
                           preexec_fn=_preexec(nofile))
        return RunResult(p.returncode, p.stdout, p.stderr, False, argv)
    except subprocess.TimeoutExpired as e:
        return RunResult(None, e.stdout or b"", e.stderr or b"", True, argv)


def snapshot(root, with_meta=False, skip=()):
    """Recursive snapshot: relpath -> ('f', bytes, mode[, ino, nlink, mtime_ns]) | ('d', mode[, ...]) | ('l', target)"""
    snap = {}
    rootb = os.fsencode(root)
    for dirpath, dirnames, filenames in os.walk(rootb):
        rel = os.path.relpath(dirpath, rootb)
        if rel == b".":
            rel = b""
        dirnames.sort()
        for d in list(dirnames):
            r = os.path.join(rel, d) if rel else d
            if os.fsdecode(r) in skip:
                dirnames.remove(d)
                continue
            st = os.lstat(os.path.join(dirpath, d))
            if stat.S_ISLNK(st.st_mode):
                snap[os.fsdecode(r)] = ("l", os.readlink(os.path.join(dirpath, d)))
                continue
            snap[os.fsdecode(r)] = ("d", stat.S_IMODE(st.st_mode)) + ((st.st_ino, st.st_nlink, st.st_mtime_ns) if with_meta else ())
        for f in sorted(filenames):
            r = os.path.join(rel, f) if rel else f
            if os.fsdecode(r) in skip:
                continue
            fp = os.path.join(dirpath, f)
            st = os.lstat(fp)
            if stat.S_ISLNK(st.st_mode):
                snap[os.fsdecode(r)] = ("l", os.readlink(fp))
                continue
            with open(fp, "rb") as fh:
                data = fh.read()
            snap[os.fsdecode(r)] = ("f", data, stat.S_IMODE(st.st_mode)) + ((st.st_ino, st.st_nlink, st.st_mtime_ns) if with_meta else ())
    return snap


def split_snapshot(snap):
    """(tree files, tree dirs, pc entries, rej files, inputs) from a full snapshot of a workspace"""
    tree, dirs, pc, rej, inputs = {}, set(), {}, {}, {}
    for p, v in snap.items():
        top = p.split("/", 1)[0]
        if top == ".pc":
            pc[p] = v
        elif top in ("patches", "series"):
            inputs[p] = v
        elif v[0] == "d":
            dirs.add(p)
        elif p.endswith(".rej"):
            rej[p] = v
        else:
            tree[p] = v
    return tree, dirs, pc, rej, inputs


def tree_diff(actual_tree, actual_dirs, expected, check_dirs=True, rej_paths=()):
    """Compare the files of the working tree with a model tree {path: (bytes, mode)}.
    Returns list of (class, path, detail)."""
    out = []
    for p, (data, mode) in expected.items():
        a = actual_tree.get(p)
        if a is None:
            out.append(("missing-file", p, "expected %d bytes" % len(data)))
        elif a[1] != data:
            out.append(("content", p, "expected %r... got %r..." % (data[:80], a[1][:80])))
        elif a[2] != (mode & 0o7777):
            out.append(("mode", p, "expected %o got %o" % (mode, a[2])))
    for p in actual_tree:
        if p not in expected:
            out.append(("extra-file", p, "%d bytes" % len(actual_tree[p][1])))
    if check_dirs:
        want_dirs = set()
        for p in list(expected) + list(rej_paths):
            d = os.path.dirname(p)
            while d:
                want_dirs.add(d)
                d = os.path.dirname(d)
        for d in actual_dirs:
            if d not in want_dirs:
                out.append(("extra-dir", d, ""))
        for d in want_dirs:
            if d not in actual_dirs:
                out.append(("missing-dir", d, ""))
    return out


def read_applied(root):
    p = os.path.join(root, ".pc", "applied-patches")
    if not os.path.exists(p):
        return None
    with open(p, "rb") as f:
        return [l.decode("utf-8", "replace") for l in f.read().split(b"\n") if l]


def copy_ws(src, dst):
    shutil.copytree(src, dst, symlinks=True)


def tar_bytes(root):
    """tarball of a workspace for replays"""
    import io
    import tarfile
    bio = io.BytesIO()
    with tarfile.open(fileobj=bio, mode="w:gz") as t:
        t.add(root, arcname="ws")
    return bio.getvalue()
