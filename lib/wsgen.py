"""Workspace generator with ground truth.

A workspace is built from a version history: a model tree T0 (path -> (bytes, mode))
and a list of patches, each a list of file operations with intended pre- and
post-state.  Every operation is rendered as the exact diff between the two
states in a randomly chosen accepted dialect, so the expected tree after the
first k patches (T_k) is known by construction, independently of any patch
algorithm.  Failures are by construction too ("poison")."""

import zlib
import os
import random

import udiff
from udiff import Hunk, diff_hunks, quote_name, split_lines

DEFAULT_MODE = 0o644

# workloads of checks that do not own a known finding avoid its shape (DESIGN.md §3.4)
AVOID_KNOWN_SHAPES = True

NAME_POOL = [
    "f.c", "Makefile", "src/a.c", "src/b.h", "src/util/x.c", "docs/readme.txt",
    "lib/deep/er/z.py", ".hidden", "weird.name.tar.gz", "src/util/y.c", "include/api.h", "docs/notes",
]
SPECIAL_NAMES = ["dir with space/file name.txt", "tab\there.txt", "quo\"te.c", "back\\slash.h", "h\xc3\xa9.txt",
                 "raw.\udcff", "d\udcfe/x.\udcff\udcfe", "vt\x0bin.txt"]   # bytes that are not UTF-8 (surrogateescape), a vertical tab

VOCAB = [b"a\n", b"b\n", b"c\n", b"{\n", b"}\n", b"\n", b"    return 0;\n", b"int x = 1;\n", b"/* comment */\n",
         b"-- x\n", b"++ y\n", b"@@ -1 +1 @@\n", b"\\ No newline at end of file\n", b"diff --git a b\n", b"--- a/f\n", b"+++ b/f\n"]


class Op:
    def __init__(self, kind, path, new_path=None, pre=None, post=None, pre_mode=None, post_mode=None):
        self.kind = kind          # modify create delete rename chmod truncate
        self.path = path          # path the operation starts from
        self.new_path = new_path or path
        self.pre = pre            # bytes or None (absent)
        self.post = post
        self.pre_mode = pre_mode
        self.post_mode = post_mode
        self.style = "plain"      # plain | devnull | samename | git
        self.timestamps = False
        self.orig_style = False   # --- a/p.orig / +++ b/p
        self.ctx = 3
        self.poison = None        # None | 'hunks' | 'missing' | 'create-over' | 'delete-mismatch' | 'misordered' | 'rename-over'
        self.hunks = None         # hunks as rendered (after poison), in patch direction
        self.failing = []         # indices of hunks expected to fail
        self.poison_want = None   # for poison == 'hunks': which hunk indices to poison
        self.prelude = b""

    def describe(self):
        d = {"kind": self.kind, "path": self.path, "style": self.style, "ctx": self.ctx}
        if self.new_path != self.path:
            d["new_path"] = self.new_path
        if getattr(self, "fake_rename_from", None):
            d["rename_from_a_name_that_is_gone"] = self.fake_rename_from
        if getattr(self, "over_empty", None):
            d["onto_an_existing_empty_file"] = True
        if self.poison:
            d["poison"] = self.poison
            d["failing_hunks"] = self.failing
        if self.pre_mode != self.post_mode:
            d["mode"] = "%o->%o" % (self.pre_mode or 0, self.post_mode or 0)
        return d


class PatchSpec:
    def __init__(self, name, ops, strip=1, reverse=False, git=False):
        self.name = name
        self.ops = ops
        self.strip = strip
        self.reverse = reverse
        self.git = git
        self.series_line = None
        self.text = None
        self.early_poison = False   # a poisoned file patch is followed by another one for the same file
        self.prefix_style = None    # how the components that -pN strips are spelled ("plain" | "double-slash")

    def fails(self):
        return any(op.poison for op in self.ops)


class Workspace:
    def __init__(self):
        self.t0 = {}
        self.patches = []
        self.trees = []      # trees[k] = tree after k patches (stops at the first failing patch)
        self.fail_at = None  # index of the first failing patch or None
        self.seed = None
        self.extra_dirs = [] # directories that exist, empty, in the starting tree (and are expected to stay)

    def describe(self):
        return {"seed": self.seed, "files": sorted(self.t0), "fail_at": self.fail_at,
                "patches": [{"name": p.name, "strip": p.strip, "reverse": p.reverse, "git": p.git, "prefix": p.prefix_style, "ops": [o.describe() for o in p.ops]} for p in self.patches]}


# ----------------------------------------------------------------------------
# content


def gen_content(r, maxlen=30, allow_bytes=True):
    v = r.choice([2, 3, 3, 4, 6, 10, len(VOCAB)])
    n = r.randint(0, maxlen)
    out = []
    for i in range(n):
        x = r.random()
        if x < 0.15:
            out.append(b"unique line %d %d\n" % (i, r.randint(0, 999)))
        elif x < 0.18 and allow_bytes:
            k = r.randint(1, 8)
            out.append(bytes(b for b in (r.randint(0, 255) for _ in range(k)) if b != 10) + b"\n")
        elif x < 0.2:
            out.append(b"line with \r cr and trailing space \n")
        elif x < 0.205:
            out.append(b"crlf line\r\n")
        elif x < 0.207:
            out.append(b"L" * r.choice([8191, 8192, 8193, 20000, 70000]) + b"\n")   # longer than an I/O buffer
        else:
            out.append(VOCAB[r.randrange(v)])
    if out and r.random() < 0.12:
        out[-1] = out[-1][:-1] or b"x"
    return b"".join(out)


def mutate_content(r, data, max_edits=4):
    lines = split_lines(data)
    # re-terminate the last line if lines get appended after it
    for _ in range(r.randint(1, max_edits)):
        pos = r.randint(0, len(lines))
        dele = min(r.randint(0, 3), len(lines) - pos)
        ins = r.randint(0, 3)
        if dele == 0 and ins == 0:
            ins = 1
        new = []
        for _ in range(ins):
            new.append(b"new %d\n" % r.randint(0, 9) if r.random() < 0.5 else VOCAB[r.randrange(6)])
        lines[pos:pos + dele] = new
    for i in range(len(lines) - 1):
        if not lines[i].endswith(b"\n"):
            lines[i] += b"\n"
    if lines and r.random() < 0.08 and lines[-1].endswith(b"\n") and len(lines[-1]) > 1:
        lines[-1] = lines[-1][:-1]
    out = b"".join(lines)
    if out == data:
        out = data + (b"" if data.endswith(b"\n") or not data else b"\n") + b"appended\n"
    return out


# ----------------------------------------------------------------------------
# rendering


PREFIX_STYLE = ["plain"]   # set by render_patch for the patch being rendered
INNER_SPELLING = [False]   # switched on by checks that compare runs with each other or by normalised names (C06, C07):
                           # some patches then spell a name inside the tree as 'd//f' or 'd/./f' - the same file as 'd/f'
INNER_STYLE = ["plain"]    # derived from the patch name (no random draw)


def _prefix(strip, side):
    if strip == 0:
        return "./" if PREFIX_STYLE[0] == "dot-slash" else ""
    comps = ["x%d" % i for i in range(strip - 1)] + [side]
    if PREFIX_STYLE[0] == "dot-slash":
        # './' is one of the N components that -pN removes (what 'diff -ur ./old ./new' writes)
        comps = ["."] + comps[1:]
    if PREFIX_STYLE[0] == "double-slash":
        # a run of slashes is one separator: -pN still removes exactly N components
        return "//".join(comps) + "//"
    return "/".join(comps) + "/"


def _name(strip, side, path, orig=False):
    if INNER_STYLE[0] != "plain" and "/" in path:
        path = path.replace("/", "//" if INNER_STYLE[0] == "double" else "/./", 1)
    n = _prefix(strip, side) + path + (".orig" if orig else "")
    return quote_name(n.encode("utf-8", "surrogateescape") if isinstance(n, str) else n)


def poisonable_hunks(hunks, reverse):
    """hunks that have at least one line on the side the tool matches against the file"""
    match_tag = b"+" if reverse else b"-"
    return [i for i, h in enumerate(hunks) if any(t in (match_tag, b" ") for t, _ in h.lines)]


def op_hunks(op, reverse):
    pre, post = (op.post, op.pre) if reverse else (op.pre, op.post)
    return diff_hunks(split_lines(pre or b""), split_lines(post or b""), op.ctx)


def render_op(op, strip, reverse, git, rnd):
    """Render one file operation as patch text in the direction the patch file is written
    (i.e. post->pre when the series line says -R).  Sets op.hunks / op.failing."""
    pre, post = op.pre, op.post
    pre_mode, post_mode = op.pre_mode, op.post_mode
    src_path, dst_path = op.path, op.new_path
    if reverse:
        pre, post = post, pre
        pre_mode, post_mode = post_mode, pre_mode
        src_path, dst_path = dst_path, src_path
    fake_from = getattr(op, "fake_rename_from", None)
    if fake_from and not reverse:
        src_path = fake_from
    else:
        fake_from = None
    a = split_lines(pre or b"")
    b = split_lines(post or b"")
    hunks = diff_hunks(a, b, op.ctx)
    if AVOID_KNOWN_SHAPES and a and b and op.ctx == 0 and len(hunks) == 1 and (
            (not hunks[0].old() and hunks[0].old_start == 0) or (not hunks[0].new() and hunks[0].new_start == 0)):
        # known finding D1b (owned by C01): a lone context-free insertion at / deletion from the head of a
        # file looks like a file creation / deletion; keep other workloads away from that shape
        op.ctx = 1
        hunks = diff_hunks(a, b, op.ctx)
    out = []
    if op.prelude:
        out.append(op.prelude)
    old_name = _name(strip, "a", src_path, orig=op.orig_style)
    new_name = _name(strip, "b", dst_path)
    devnull_old = pre is None and op.style in ("devnull", "git")
    devnull_new = post is None and op.style in ("devnull", "git")
    if getattr(op, "fill_devnull", False):
        # creation-style header for an existing zero-length file
        if reverse:
            devnull_new = True
        else:
            devnull_old = True
    if git:
        out.append(b"diff --git " + _name(strip, "a", src_path) + b" " + _name(strip, "b", dst_path) + b"\n")
        if pre is None and post_mode is not None:
            out.append(b"new file mode %06o\n" % (0o100000 | post_mode))
        elif post is None and pre_mode is not None:
            out.append(b"deleted file mode %06o\n" % (0o100000 | pre_mode))
        elif pre is not None and post is not None and pre_mode != post_mode:
            out.append(b"old mode %06o\nnew mode %06o\n" % (0o100000 | pre_mode, 0o100000 | post_mode))
        if op.kind == "rename" or (fake_from and not getattr(op, "old_name_removed_earlier", False)):
            out.append(b"rename from " + src_path.encode("utf-8", "surrogateescape") + b"\nrename to " + dst_path.encode("utf-8", "surrogateescape") + b"\n")
        if rnd.random() < 0.5:
            out.append(b"index %07x..%07x%s\n" % (rnd.getrandbits(28), rnd.getrandbits(28), b" 100644" if rnd.random() < 0.5 and pre_mode == post_mode else b""))
    if hunks:
        ts = b"\t2020-02-02 12:00:00.000000000 +0000" if op.timestamps else b""
        out.append(b"--- " + (b"/dev/null" if devnull_old else old_name) + ts + b"\n")
        out.append(b"+++ " + (b"/dev/null" if devnull_new else new_name) + ts + b"\n")
    # poison
    failing = []
    if op.poison == "hunks":
        # the tool matches the old side of the text, or the new side when the series line says -R
        match_tag = b"+" if reverse else b"-"
        cands = poisonable_hunks(hunks, reverse)
        want = [i for i in (op.poison_want or []) if i in cands]
        if not want:
            want = cands[:1]
        for i in want:
            h = hunks[i]
            idxs = [j for j, (t, _) in enumerate(h.lines) if t == match_tag] or [j for j, (t, _) in enumerate(h.lines) if t == b" "]
            j = idxs[0]
            t, l = h.lines[j]
            tok = b"POISON-%d-%d no such line anywhere" % (rnd.randint(0, 10**6), i)
            if rnd.random() < 0.5:
                # the line the file has, extended: the file's line is a proper prefix of what the hunk asks for
                tok = l.rstrip(b"\n") + b" " + tok
            h.lines[j] = (t, tok + b"\n" if l.endswith(b"\n") else tok)
            failing.append(i)
    elif op.poison in ("missing", "create-over", "delete-mismatch"):
        failing = list(range(len(hunks)))
    elif op.poison == "misordered" and len(hunks) >= 2:
        hunks[0], hunks[1] = hunks[1], hunks[0]
        failing = [1]
    for h in hunks:
        out.append(h.render())
    op.hunks = hunks
    op.failing = failing
    return b"".join(out)


def render_patch(p, rnd):
    parts = []
    if rnd.random() < 0.3:
        # a mail-style description; the separator line sometimes carries a trailing blank or TAB and is followed by the diff
        # directly (no diffstat in between)
        sep = rnd.choice([b"---\n file | 2 +-\n\n", b"---\n file | 2 +-\n\n", b"--- \n\n", b"--- \n", b"---\t\n\n", b"---  \n file | 2 +-\n\n"])
        parts.append(b"From: someone\nSubject: %s\n\nSome description.\n" % p.name.encode("utf-8", "surrogateescape") + sep)
    if getattr(p, "prefix_style", None) is None:
        p.prefix_style = "double-slash" if (p.strip >= 1 and rnd.random() < 0.07) else ("dot-slash" if ((p.strip == 0 or not p.git) and rnd.random() < 0.15) else "plain")
    PREFIX_STYLE[0] = p.prefix_style
    INNER_STYLE[0] = ("double", "dot", "plain")[zlib.crc32(p.name.encode("utf-8", "surrogateescape")) % 3] if INNER_SPELLING[0] else "plain"
    try:
        for i, op in enumerate(p.ops):
            if not p.git and i > 0 and rnd.random() < 0.3:
                op.prelude = b"Index: %s\n===================================================================\n" % op.path.encode("utf-8", "surrogateescape")
            parts.append(render_op(op, p.strip, p.reverse, p.git, rnd))
    finally:
        PREFIX_STYLE[0] = "plain"
        INNER_STYLE[0] = "plain"
    if p.git and zlib.crc32(p.name.encode("utf-8", "surrogateescape")) % 3 == 1:
        # what git format-patch puts behind the last file patch (no random draw: derived from the patch name)
        parts.append(b"-- \n2.43.0\n\n")
    p.text = b"".join(parts)
    opts = []
    if p.strip != 1:
        opts.append("-p%d" % p.strip)
    if p.reverse:
        opts.append("-R")
    p.series_line = p.name + ("" if not opts else " " + " ".join(opts))
    return p.text


# ----------------------------------------------------------------------------
# history generator


class GenConfig:
    def __init__(self, **kw):
        self.max_files = 6
        self.max_patches = 6
        self.min_patches = 1
        self.max_ops = 3
        self.p_fail = 0.5           # probability that the series contains a failing patch
        self.fail_reasons = ["hunks", "hunks", "hunks", "missing", "create-over", "delete-mismatch", "misordered", "rename-over"]
        self.kinds = ["modify"] * 8 + ["create"] * 2 + ["delete"] * 2 + ["rename"] * 2 + ["chmod"] * 1 + ["truncate"] * 1 + ["fill"] * 1
        self.allow_git = True
        self.allow_reverse = True
        self.allow_strip = True
        self.allow_special_names = True
        self.allow_orig = True
        self.allow_same_file_twice = True
        self.ctx_choices = [0, 1, 2, 3, 3, 3]
        self.content_max = 30
        self.fail_position = None    # force the failing patch index (None = random)
        self.ops_after_fail = True   # patches after the failing one exist (they must not be applied)
        self.empty_dir_deletes = True
        self.p_second_fail = 0.0     # probability that a patch AFTER the first failing one is poisoned too (it is never reached
                                     # by a sequential push; a parallel push may run ahead into it)
        self.allow_done_renames = True
        self.p_long_last_line = 0.0  # probability that a file of the starting tree ends in a line longer than an I/O buffer
        self.p_early_poison = 0.0    # probability that a poisoned file patch may be one that a LATER file patch of the same patch follows
                                     # (same file twice in one patch).  What the later one then does is not known by construction: only for
                                     # checks that need neither the reject set nor the forced result
        self.__dict__.update(kw)


def _pick_new_path(r, tree, cfg, used):
    pool = list(NAME_POOL)
    if cfg.allow_special_names and r.random() < 0.15:
        pool = SPECIAL_NAMES
    for _ in range(30):
        p = r.choice(pool)
        if r.random() < 0.3:
            p = r.choice(["src", "docs", "new/dir", "lib"]) + "/n%d.c" % r.randint(0, 99)
        if p not in tree and p not in used and not _clashes(p, tree):
            return p
    return "gen/f%d.txt" % r.randint(0, 10**6)


def _clashes(path, tree):
    """a file path must not be a directory prefix of another path and vice versa"""
    for q in tree:
        if q.startswith(path + "/") or path.startswith(q + "/"):
            return True
    return False


def generate(seed, cfg=None):
    cfg = cfg or GenConfig()
    r = random.Random(seed)
    ws = Workspace()
    ws.seed = seed
    nfiles = r.randint(1, cfg.max_files)
    used = set()
    for _ in range(nfiles):
        p = _pick_new_path(r, ws.t0, cfg, used)
        mode = r.choice([0o644, 0o644, 0o644, 0o755, 0o600, 0o664])
        data = gen_content(r, cfg.content_max)
        if not data and r.random() < 0.7:
            data = b"only line\n"
        if r.random() < 0.12:
            data = b""   # tracked zero-length files (e.g. __init__.py): creations may land on them
        if data and cfg.p_long_last_line and r.random() < cfg.p_long_last_line:
            # the LAST line is longer than an I/O buffer (it is then the last thing written to the file)
            if not data.endswith(b"\n"):
                data += b"\n"
            data += b"Z" * r.choice([8192, 9000, 20000, 70000]) + (b"\n" if r.random() < 0.7 else b"")
        ws.t0[p] = (data, mode)
    npatches = r.randint(cfg.min_patches, cfg.max_patches)
    will_fail = r.random() < cfg.p_fail
    fail_idx = None
    if will_fail:
        fail_idx = cfg.fail_position if cfg.fail_position is not None else r.randrange(npatches)
        fail_idx = min(fail_idx, npatches - 1)
    tree = dict(ws.t0)
    ws.trees = [dict(tree)]
    cfg._t0 = dict(ws.t0)
    for pi in range(npatches):
        git = cfg.allow_git and r.random() < 0.4
        reverse = cfg.allow_reverse and r.random() < 0.15
        strip = r.choice([1, 1, 1, 1, 0, 2, 3]) if cfg.allow_strip else 1
        nops = r.randint(1, cfg.max_ops)
        ops = []
        work = dict(tree)
        touched = set()
        for oi in range(nops):
            op = _gen_op(r, work, cfg, git, reverse, touched)
            if op is None:
                continue
            ops.append(op)
        if not ops:
            # always possible: create a new file
            p = _pick_new_path(r, work, cfg, set())
            op = Op("create", p, pre=None, post=b"created\n", pre_mode=None, post_mode=DEFAULT_MODE)
            op.style = "git" if git else "devnull"
            work[p] = (op.post, DEFAULT_MODE)
            ops.append(op)
        patch = PatchSpec("p%02d-%s.patch" % (pi, r.choice(["fix", "feature", "cleanup", "x"])), ops, strip, reverse, git)
        if r.random() < 0.15:
            patch.name = "sub/" + patch.name
        if any(o.kind == "rename" for o in ops):
            patch.reverse = False
        if fail_idx == pi:
            _poison(r, patch, tree, work, cfg)
        elif fail_idx is not None and pi > fail_idx and r.random() < cfg.p_second_fail:
            _poison(r, patch, tree, work, cfg)
        render_patch(patch, r)
        ws.patches.append(patch)
        if patch.fails() and ws.fail_at is None:
            ws.fail_at = pi
            if not cfg.ops_after_fail:
                break
            # later patches are generated against the tree as if this patch had applied (they are never reached)
        if ws.fail_at is None:
            tree = work
            ws.trees.append(dict(tree))
        else:
            tree = work
    return ws


def _gen_op(r, work, cfg, git, reverse, touched):
    kinds = list(cfg.kinds)
    kind = r.choice(kinds)
    existing = [p for p in work if cfg.allow_same_file_twice or p not in touched]
    nonempty = [p for p in existing if work[p][0]]
    op = None
    if kind in ("rename", "chmod") and not git:
        kind = "modify"
    if kind == "modify":
        if not nonempty:
            return None
        p = r.choice(nonempty)
        data, mode = work[p]
        post = mutate_content(r, data)
        if not post:
            post = b"kept\n"
        if post == data:
            post = data + (b"" if data.endswith(b"\n") else b"\n") + b"kept too\n"
        op = Op("modify", p, pre=data, post=post, pre_mode=mode, post_mode=mode)
        op.style = "git" if git else "plain"
        if git and not reverse and cfg.allow_done_renames and r.random() < 0.06:
            # a git rename whose old name is gone and whose new name is there (the rename was done already): the file under
            # the new name is patched in place
            op.fake_rename_from = "formerly/%s-%d" % (os.path.basename(p), r.randint(0, 10**6))
        if not git and cfg.allow_orig and r.random() < 0.15 and (p + ".orig") not in work:
            op.orig_style = True
        elif not git and not reverse and cfg.allow_done_renames and r.random() < 0.12:
            # '--- a/<a file the series removed earlier>' / '+++ b/<this file>': the old name existed when the push started
            # and is gone by now, so the new name is the one to patch
            t0 = getattr(cfg, "_t0", None) or {}
            gone = [q for q in sorted(t0) if q not in work and q != p and not _clashes(q, work)]
            if gone:
                op.fake_rename_from = r.choice(gone)
                op.old_name_removed_earlier = True
        work[p] = (post, mode)
    elif kind == "truncate":
        if not nonempty:
            return None
        p = r.choice(nonempty)
        data, mode = work[p]
        op = Op("truncate", p, pre=data, post=b"", pre_mode=mode, post_mode=mode)
        op.style = "git" if git else "samename"
        op.ctx = 0
        if not git and cfg.allow_orig and r.random() < 0.3 and (p + ".orig") not in work:
            op.orig_style = True   # '--- a/p.orig' / '+++ b/p' around a hunk that removes every line
        work[p] = (b"", mode)
    elif kind == "fill":
        # a creation-style patch onto a file that exists with zero length (accepted, as by GNU patch)
        empties = [p for p in existing if not work[p][0] and p not in touched]
        if not empties:
            return None
        p = r.choice(empties)
        _, mode = work[p]
        post = gen_content(r, 10) or b"filled\n"
        newmode = mode
        op = Op("modify", p, pre=b"", post=post, pre_mode=mode, post_mode=mode)
        op.kind = "fill"
        if git:
            op.style = "git"
        else:
            op.style = r.choice(["devnull", "samename"])
        op.fill_devnull = op.style in ("devnull", "git")
        work[p] = (post, newmode)
    elif kind == "create":
        p = _pick_new_path(r, work, cfg, touched)
        t0 = getattr(cfg, "_t0", None) or {}
        gone = [q for q in sorted(t0) if q not in work and q not in touched and not _clashes(q, work)]
        if gone and r.random() < 0.35:
            # a name that was there when the series started and was removed since: the new file is a new file (own mode)
            p = r.choice(gone)
        post = gen_content(r, 12) or b"new file\n"
        mode = DEFAULT_MODE
        if git and r.random() < 0.5:
            mode = r.choice([0o644, 0o755])
        op = Op("create", p, pre=None, post=post, pre_mode=None, post_mode=mode)
        if git:
            op.style = "git"
            if mode == DEFAULT_MODE and r.random() < 0.5:
                op.post_mode_explicit = False
        else:
            op.style = r.choice(["devnull", "devnull", "samename"])
        work[p] = (post, mode)
    elif kind == "delete":
        if not nonempty:
            return None
        cands = nonempty
        if not cfg.empty_dir_deletes:
            cands = [p for p in nonempty if sum(1 for q in work if os.path.dirname(q) == os.path.dirname(p)) > 1 or "/" not in p]
            if not cands:
                return None
        p = r.choice(cands)
        data, mode = work[p]
        op = Op("delete", p, pre=data, post=None, pre_mode=mode, post_mode=None)
        op.style = "git" if git else "devnull"
        del work[p]
    elif kind == "rename":
        if not existing:
            return None
        p = r.choice(existing)
        data, mode = work[p]
        q = _pick_new_path(r, work, cfg, touched)
        empties = [e for e in work if not work[e][0] and e != p and (cfg.allow_same_file_twice or e not in touched)]
        over_empty = None
        if empties and data and r.random() < 0.3:
            # onto a name that exists with zero length: accepted (like a creation onto an empty file); undoing it must bring
            # the empty file back with its own mode
            q = r.choice(empties)
            over_empty = work[q]
        post = mutate_content(r, data) if (data and r.random() < 0.6) else data
        op = Op("rename", p, new_path=q, pre=data, post=post, pre_mode=mode, post_mode=mode)
        op.style = "git"
        op.over_empty = over_empty
        del work[p]
        work[q] = (post, mode)
        touched.add(q)
    elif kind == "chmod":
        if not existing:
            return None
        p = r.choice(existing)
        data, mode = work[p]
        newmode = r.choice([m for m in (0o644, 0o755, 0o600, 0o700) if m != mode])
        post = mutate_content(r, data) if (data and r.random() < 0.5) else data
        op = Op("chmod", p, pre=data, post=post, pre_mode=mode, post_mode=newmode)
        op.style = "git"
        work[p] = (post, newmode)
    if op is not None:
        op.ctx = r.choice(cfg.ctx_choices) if op.kind != "truncate" else 0
        op.timestamps = (not git) and r.random() < 0.2
        touched.add(op.path)
    return op


def _poison(r, patch, tree_before, work, cfg):
    """Make the patch fail for a stated reason.  tree_before: tree the patch is applied to."""
    reasons = list(cfg.fail_reasons)
    r.shuffle(reasons)
    for reason in reasons:
        if reason == "hunks":
            # only the last operation on a file may be poisoned (what follows a partial application is not known by construction)
            last_for = {}
            for o in patch.ops:
                last_for[o.new_path] = o
                last_for[o.path] = o
            cands = []
            early = r.random() < cfg.p_early_poison
            for o in patch.ops:
                if o.kind not in ("modify", "chmod", "rename") or not o.pre or o.pre == o.post:
                    continue
                if last_for.get(o.path) is not o or last_for.get(o.new_path) is not o:
                    if not (early and o.kind == "modify"):
                        continue
                ph = poisonable_hunks(op_hunks(o, patch.reverse), patch.reverse)
                if ph:
                    cands.append((o, ph))
            if not cands:
                continue
            k = r.randint(1, len(cands))
            for o, ph in r.sample(cands, k):
                o.poison = "hunks"
                o.poison_want = sorted(r.sample(ph, r.randint(1, len(ph))))
                if last_for.get(o.path) is not o or last_for.get(o.new_path) is not o:
                    patch.early_poison = True
            return
        if reason == "misordered":
            if patch.reverse:
                continue
            count = {}
            for o in patch.ops:
                count[o.path] = count.get(o.path, 0) + 1
            done = False
            for o in patch.ops:
                if o.kind != "modify" or not o.pre or count[o.path] != 1 or o.orig_style:
                    continue
                lines = split_lines(o.pre)
                if len(lines) < 12 or not lines[-1].endswith(b"\n"):
                    continue
                post = list(lines)
                post[1] = b"changed near top %d\n" % r.randint(0, 999)
                post[-2] = b"changed near bottom %d\n" % r.randint(0, 999)
                if len(diff_hunks(lines, post, 1)) == 2:
                    o.post = b"".join(post)
                    o.ctx = 1
                    o.poison = "misordered"
                    done = True
                    break
            if done:
                return
            continue
        if reason == "missing":
            p = "missing/dir/nofile%d.c" % r.randint(0, 99) if r.random() < 0.5 else "nofile%d.c" % r.randint(0, 99)
            # sometimes in a directory that existed at the start but was emptied by the patches applied so far (or is
            # emptied by this very series): the reject then belongs into a directory that is gone when rejects are written
            t0 = getattr(cfg, "_t0", None) or {}
            dirs0 = set(os.path.dirname(q) for q in t0 if "/" in q)
            dirs_now = set()
            for q in list(tree_before) + list(work):
                d = os.path.dirname(q)
                while d:
                    dirs_now.add(d)
                    d = os.path.dirname(d)
            gone = sorted(d for d in dirs0 if d not in dirs_now)
            if gone and r.random() < 0.6:
                p = r.choice(gone) + "/nofile%d.c" % r.randint(0, 99)
            if p in tree_before or p in work:
                continue
            data = b"line 1\nline 2\nline 3\n"
            op = Op("modify", p, pre=data, post=b"line 1\nline two\nline 3\n", pre_mode=DEFAULT_MODE, post_mode=DEFAULT_MODE)
            op.style = "git" if patch.git else "plain"
            op.ctx = 3
            op.poison = "missing"
            patch.ops.insert(r.randint(0, len(patch.ops)), op)
            return
        if reason == "create-over":
            cands = [p for p in tree_before if tree_before[p][0] and p in work and work[p] == tree_before[p]]
            if not cands:
                continue
            p = r.choice(cands)
            op = Op("create", p, pre=None, post=b"brand new content\n", pre_mode=None, post_mode=DEFAULT_MODE)
            op.style = "git" if patch.git else "devnull"
            op.poison = "create-over"
            patch.ops.insert(r.randint(0, len(patch.ops)), op)
            if patch.reverse:
                patch.reverse = False
            return
        if reason == "rename-over":
            # a git rename onto a name that exists with content: refused as a whole (no reject for it), nothing may change,
            # neither content nor the modes of the two files
            if not patch.git or patch.reverse:
                continue
            cands = [p for p in tree_before if tree_before[p][0] and p in work and work[p] == tree_before[p]
                     and not any(p in (o.path, o.new_path) for o in patch.ops)]
            if len(cands) < 2:
                continue
            a, b = r.sample(cands, 2)
            data, mode = tree_before[a]
            post = mutate_content(r, data) if r.random() < 0.5 else data
            op = Op("rename", a, new_path=b, pre=data, post=post or data, pre_mode=mode, post_mode=mode)
            op.style = "git"
            op.ctx = 3
            op.poison = "rename-over"
            patch.ops.insert(r.randint(0, len(patch.ops)), op)
            return
        if reason == "delete-mismatch":
            cands = [p for p in tree_before if tree_before[p][0] and p in work and work[p] == tree_before[p]]
            if not cands:
                continue
            p = r.choice(cands)
            op = Op("delete", p, pre=b"this is not the content\nof the file\n", post=None, pre_mode=DEFAULT_MODE, post_mode=None)
            op.style = "git" if patch.git else "devnull"
            op.poison = "delete-mismatch"
            patch.ops.insert(r.randint(0, len(patch.ops)), op)
            if patch.reverse:
                patch.reverse = False
            return
    # fallback: a modification of a missing file is always possible
    op = Op("modify", "no/such/file.c", pre=b"a\nb\n", post=b"a\nc\n", pre_mode=DEFAULT_MODE, post_mode=DEFAULT_MODE)
    op.style = "git" if patch.git else "plain"
    op.poison = "missing"
    patch.ops.append(op)


# ----------------------------------------------------------------------------
# materialisation


def materialize(ws, root, applied=0, patches_dir="patches"):
    """Write the workspace as it looks after `applied` patches were pushed by an earlier invocation
    (applied=0: pristine).  Only the tree and .pc/applied-patches are pre-populated."""
    os.makedirs(root, exist_ok=True)
    tree = ws.trees[applied]
    for p, (data, mode) in tree.items():
        fp = os.path.join(root.encode(), p.encode("utf-8", "surrogateescape"))
        os.makedirs(os.path.dirname(fp), exist_ok=True)
        with open(fp, "wb") as f:
            f.write(data)
        os.chmod(fp, mode)
    for d in getattr(ws, "extra_dirs", ()):
        os.makedirs(os.path.join(root, d), exist_ok=True)
    pd = os.path.join(root, patches_dir)
    os.makedirs(pd, exist_ok=True)
    for p in ws.patches:
        fp = os.path.join(pd, p.name)
        os.makedirs(os.path.dirname(fp), exist_ok=True)
        with open(fp, "wb") as f:
            f.write(p.text)
    with open(os.path.join(root, "series"), "w") as f:
        for p in ws.patches:
            f.write(p.series_line + "\n")
    if applied:
        os.makedirs(os.path.join(root, ".pc"), exist_ok=True)
        with open(os.path.join(root, ".pc", "applied-patches"), "w") as f:
            for p in ws.patches[:applied]:
                f.write(p.name + "\n")


def nest_patch_names(ws, r, patches_dir="patches"):
    """Move some patches into sub-directories of the patch directory, among them one called like the patch
    directory itself, and give one of those the base name of an earlier top-level patch
    (series: fix.patch ... patches/fix.patch): a goal given by name must mean exactly the entry typed."""
    def rename(p, new):
        assert p.series_line.startswith(p.name)
        p.series_line = new + p.series_line[len(p.name):]
        p.name = new
    n = len(ws.patches)
    for p in ws.patches:
        if r.random() < 0.4:
            rename(p, r.choice([patches_dir, patches_dir, "sub/dir", "x"]) + "/" + p.name)
    if n >= 2:
        i = r.randrange(0, n - 1)
        j = r.randrange(i + 1, n)
        base = ws.patches[i].name.rsplit("/", 1)[-1]
        rename(ws.patches[i], base)
        new = patches_dir + "/" + base
        if all(q.name != new for q in ws.patches):
            rename(ws.patches[j], new)


def add_note_patch(ws, r):
    """Insert a patch file without any file patch (empty, or only a description) - also as the last patch of the series
    and right in front of the failing one.  It applies trivially: it is recorded, and nothing changes."""
    n = len(ws.patches)
    limit = n if ws.fail_at is None else ws.fail_at
    where = r.choice(["last", "before-fail", "any"])
    if where == "last" and ws.fail_at is None:
        pos = n
    elif where == "before-fail" and ws.fail_at is not None:
        pos = ws.fail_at
    else:
        pos = r.randint(0, limit)
    p = PatchSpec("p%02dn-note.patch" % pos, [], 1, False, False)
    p.text = r.choice([b"", b"Only a description, no diff in here.\n", b"From: someone\nSubject: placeholder\n\n---\n nothing | 0\n\n"])
    p.series_line = p.name
    p.prefix_style = "plain"
    ws.patches.insert(pos, p)
    ws.trees.insert(pos + 1, dict(ws.trees[pos]))
    if ws.fail_at is not None:
        ws.fail_at += 1
    return True


def add_empty_dirs(ws, r):
    """Directories that are empty in the starting tree (and stay so); sometimes the failing patch is given a file patch for
    a file that does not exist in one of them (its reject belongs there, and nothing may remove the directory)."""
    dirs = []
    for d in r.sample(["spool", "var/cache", "empty.d", "deep/er/est"], r.randint(1, 2)):
        top = d.split("/")[0]
        if any(q == top or q.startswith(top + "/") for t in ws.trees for q in t):
            continue
        if any(q == top or q.startswith(top + "/") for p in ws.patches for o in p.ops for q in (o.path, o.new_path)):
            continue
        dirs.append(d)
    if not dirs:
        return False
    ws.extra_dirs = sorted(set(getattr(ws, "extra_dirs", [])) | set(dirs))
    if ws.fail_at is not None and r.random() < 0.7:
        fp = ws.patches[ws.fail_at]
        d = r.choice(dirs)
        data = b"line 1\nline 2\nline 3\n"
        o = Op("modify", d + "/nofile%d.c" % r.randint(0, 99), pre=data, post=b"line 1\nline two\nline 3\n", pre_mode=DEFAULT_MODE, post_mode=DEFAULT_MODE)
        o.style = "git" if fp.git else "plain"
        o.ctx = 3
        o.poison = "missing"
        fp.ops.insert(r.randint(0, len(fp.ops)), o)
        render_patch(fp, r)
    return True


def add_nested_emptying(ws, r):
    """A directory with a file and a nested directory with a file (and sometimes one level more); the series deletes all of
    them, in random patches that apply: the nested directories and then the outer one become empty and must be removed."""
    limit = ws.fail_at if ws.fail_at is not None else len(ws.patches)
    if limit == 0:
        return False
    top = "nest%d" % r.randint(0, 999)
    for t in ws.trees:
        for q in t:
            if q == top or q.startswith(top + "/"):
                return False
    sub = "e%d" % r.randint(0, 99)
    names = [top + "/g%d.c" % r.randint(0, 99), top + "/" + sub + "/f%d.c" % r.randint(0, 99)]
    if r.random() < 0.4:
        names.append(top + "/" + sub + "/h%d/i.txt" % r.randint(0, 99))
    if r.random() < 0.3:
        top = "outer/" + top   # one more level that also empties
        names = ["outer/" + n for n in names]
        if any(q == "outer" or q.startswith("outer/") for t in ws.trees for q in t):
            return False
    content = b"to be\ndeleted\n"
    where = {}
    same = r.random() < 0.5
    one = r.randrange(0, limit)
    for nm in names:
        where[nm] = one if same else r.randrange(0, limit)
    for k, t in enumerate(ws.trees):
        for nm in names:
            if k <= where[nm]:
                t[nm] = (content, DEFAULT_MODE)
    touched = set()
    for nm in names:
        p = ws.patches[where[nm]]
        o = Op("delete", nm, pre=content, post=None, pre_mode=DEFAULT_MODE, post_mode=None)
        o.style = "git" if p.git else "devnull"
        p.ops.insert(r.randint(0, len(p.ops)), o)
        touched.add(where[nm])
    for i in touched:
        render_patch(ws.patches[i], r)
    ws.t0 = ws.trees[0]
    return True


def add_newdir_reject(ws, r):
    """Make the failing patch reject a file in a directory that does not exist when the push starts and is created by an
    earlier patch of the series (so, in one invocation, it exists on disk only once the tree has been saved)."""
    if ws.fail_at is None:
        return False
    d = r.choice(["fresh", "fresh/deep", "src/fresh", "a/b/c/fresh"])
    top = d.split("/")[0]
    for t in ws.trees:
        for q in t:
            if q == top or q.startswith(top + "/") or q == d:
                return False
    for p in ws.patches:
        for o in p.ops:
            for q in (o.path, o.new_path):
                if q == top or q.startswith(top + "/"):
                    return False
    content = b"one\ntwo\nthree\nfour\nfive\n"
    names = [d + "/n%d.c" % i for i in range(r.randint(2, 4))]
    ops = []
    for nm in names:
        o = Op("create", nm, pre=None, post=content, pre_mode=None, post_mode=DEFAULT_MODE)
        o.style = "devnull"
        ops.append(o)
    files = dict((nm, (content, DEFAULT_MODE)) for nm in names)
    pos = r.randint(0, ws.fail_at)
    if r.random() < 0.5:
        p = PatchSpec("p-newdir.patch", ops, 1, False, False)
        render_patch(p, r)
        ws.patches.insert(pos, p)
        ws.trees = ws.trees[:pos + 1] + [dict(t, **files) for t in ws.trees[pos:]]
        ws.fail_at += 1
    else:
        # one creating patch per file: the directory is created by whichever worker saves first
        trees = ws.trees[:pos + 1]
        acc = dict(ws.trees[pos])
        for i, o in enumerate(ops):
            p = PatchSpec("p-newdir-%d.patch" % i, [o], 1, False, False)
            render_patch(p, r)
            ws.patches.insert(pos + i, p)
            acc = dict(acc)
            acc[o.path] = files[o.path]
            trees.append(acc)
        trees += [dict(t, **files) for t in ws.trees[pos + 1:]]
        ws.trees = trees
        ws.fail_at += len(ops)
    fp = ws.patches[ws.fail_at]
    k = r.randint(1, min(2, len(names)))
    for nm in r.sample(names, k):
        o = Op("modify", nm, pre=content, post=b"one\nTWO\nthree\nfour\nfive\n", pre_mode=DEFAULT_MODE, post_mode=DEFAULT_MODE)
        o.style = "git" if fp.git else "plain"
        o.ctx = r.choice([1, 2, 3])
        o.poison = "hunks"
        o.poison_want = [0]
        fp.ops.insert(r.randint(0, len(fp.ops)), o)
    render_patch(fp, r)
    return True


def expected_after(ws, first, goal_count):
    """Ground truth for pushing `goal_count` patches starting after `first` applied ones:
    (k = number of patches this run applies, expected tree, failing patch index or None)"""
    last = min(len(ws.patches), first + goal_count)
    if ws.fail_at is not None and ws.fail_at < last:
        k_abs = ws.fail_at
        return k_abs - first, ws.trees[k_abs], ws.fail_at
    return last - first, ws.trees[last], None


def generate_long(seed, npatches, nfiles=3, big_lines=0, p_fail=0.3):
    """A long series of small patches over a few files (more patches than the default backup window of 100), optionally
    on a file with more than 65535 lines.  Same ground-truth structure as generate()."""
    r = random.Random(seed)
    ws = Workspace()
    ws.seed = seed
    names = ["long/f%d.txt" % i for i in range(nfiles)]
    tree = {}
    for i, nme in enumerate(names):
        n = big_lines if (big_lines and i == 0) else r.randint(5, 40)
        tree[nme] = (b"".join(b"%s line %d\n" % (nme.encode(), k) for k in range(n)), 0o644)
    ws.t0 = dict(tree)
    ws.trees = [dict(tree)]
    fail_idx = r.randrange(npatches) if r.random() < p_fail else None
    for pi in range(npatches):
        nme = r.choice(names)
        data, mode = tree[nme]
        lines = split_lines(data)
        pos = r.randrange(len(lines)) if lines else 0
        if big_lines and nme == names[0] and r.random() < 0.7:
            pos = len(lines) - 1 - r.randrange(min(50, len(lines)))  # beyond line 65535
        x = r.random()
        if x < 0.5 or not lines:
            lines.insert(pos, b"inserted by p%d\n" % pi)
        elif x < 0.8:
            lines[pos] = b"changed by p%d\n" % pi
        else:
            del lines[pos]
        post = b"".join(lines) or b"kept\n"
        if post == data:
            post = data + b"kept as well (p%d)\n" % pi   # never a patch without a change (nothing to apply, nothing that could fail)
        op = Op("modify", nme, pre=data, post=post, pre_mode=mode, post_mode=mode)
        op.ctx = r.choice([1, 2, 3, 3])
        git = r.random() < 0.3
        op.style = "git" if git else "plain"
        p = PatchSpec("l%03d.patch" % pi, [op], 1, False, git)
        work = dict(tree)
        work[nme] = (post, mode)
        if fail_idx == pi:
            op.poison = "hunks"
            op.poison_want = [0]
        render_patch(p, r)
        ws.patches.append(p)
        if p.fails() and ws.fail_at is None:
            ws.fail_at = pi
        tree = work
        if ws.fail_at is None:
            ws.trees.append(dict(tree))
    return ws
