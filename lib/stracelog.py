"""Parser for `strace -f -y -qq -e trace=%file,%desc` logs: resolves paths
against the traced process's working directory and classifies write-class calls."""

import os
import re

STRACE = ["strace", "-f", "-y", "-qq", "-s", "64", "-e", "trace=%file,%desc"]

WRITE_FLAGS = ("O_WRONLY", "O_RDWR", "O_CREAT", "O_TRUNC", "O_APPEND")
PATH_WRITE_CALLS = {"unlink", "unlinkat", "rmdir", "mkdir", "mkdirat", "rename", "renameat", "renameat2", "chmod", "fchmodat", "fchmodat2",
                    "truncate", "utimensat", "utime", "utimes", "futimesat", "link", "linkat", "symlink", "symlinkat", "chown", "lchown",
                    "fchownat", "mknod", "mknodat", "creat", "setxattr", "lsetxattr", "removexattr"}
FD_WRITE_CALLS = {"write", "pwrite64", "writev", "pwritev", "pwritev2", "fchmod", "ftruncate", "fchown", "fallocate", "fsetxattr", "copy_file_range", "sendfile"}

_line = re.compile(r"^(\d+)\s+(.*)$")
_call = re.compile(r"^([a-z_0-9]+)\((.*)$", re.S)
_str = re.compile(r'"((?:[^"\\]|\\.)*)"')
_fd = re.compile(r"^(\d+)<([^>]*)>")
_atfd = re.compile(r"^AT_FDCWD<([^>]*)>|^(\d+)<([^>]*)>")


def _unescape(s):
    out = bytearray()
    i = 0
    b = s.encode("latin-1", "replace")
    while i < len(b):
        c = b[i]
        if c == 0x5c and i + 1 < len(b):
            d = b[i + 1]
            if 0x30 <= d <= 0x37:
                j = i + 1
                v = 0
                n = 0
                while j < len(b) and n < 3 and 0x30 <= b[j] <= 0x37:
                    v = v * 8 + (b[j] - 0x30)
                    j += 1
                    n += 1
                out.append(v & 0xff)
                i = j
                continue
            m = {0x6e: 10, 0x74: 9, 0x72: 13, 0x5c: 0x5c, 0x22: 0x22, 0x76: 11, 0x66: 12, 0x61: 7, 0x62: 8, 0x65: 27}
            if d in m:
                out.append(m[d])
                i += 2
                continue
            if d == 0x78 and i + 3 < len(b):
                out.append(int(b[i + 2:i + 4], 16))
                i += 4
                continue
        out.append(c)
        i += 1
    return bytes(out).decode("utf-8", "surrogateescape")


class Event:
    __slots__ = ("pid", "call", "paths", "flags", "ret", "raw", "write_class")

    def __repr__(self):
        return "%s %s %s -> %s" % (self.pid, self.call, self.paths, self.ret)


def parse(log_path, cwd):
    """Returns list of Event in log order (an unfinished call is placed where it resumes)."""
    events = []
    pending = {}
    with open(log_path, "r", encoding="latin-1") as f:
        for line in f:
            m = _line.match(line.rstrip("\n"))
            if not m:
                continue
            pid, rest = m.group(1), m.group(2)
            if rest.endswith("<unfinished ...>"):
                pending[pid] = rest[:-len("<unfinished ...>")]
                continue
            if rest.startswith("<... "):
                k = rest.find("resumed>")
                rest = pending.pop(pid, "") + rest[k + len("resumed>"):]
            if rest.startswith("+++") or rest.startswith("---"):
                continue
            c = _call.match(rest)
            if not c:
                continue
            name, args = c.group(1), c.group(2)
            ret = None
            k = args.rfind(") = ")
            if k >= 0:
                ret = args[k + 4:].strip()
                args = args[:k]
            ev = Event()
            ev.pid, ev.call, ev.raw, ev.ret = pid, name, rest, ret
            ev.flags = ""
            ev.paths = []
            ev.write_class = False
            base = cwd
            a = args
            # directory fd of *at calls
            am = _atfd.match(a)
            if am:
                base = am.group(1) if am.group(1) is not None else am.group(3)
            if name in FD_WRITE_CALLS or name in ("read", "close", "fstat", "newfstatat", "mmap", "pread64", "lseek", "fsync", "fdatasync", "getdents64", "ioctl", "poll"):
                fm = _fd.match(a)
                if fm and fm.group(2).startswith("/"):
                    ev.paths = [fm.group(2)]
                elif name == "mmap":
                    mm = re.search(r"(\d+)<(/[^>]*)>", a)
                    if mm:
                        ev.paths = [mm.group(2)]
                    ev.flags = a
                if name in FD_WRITE_CALLS and ev.paths:
                    ev.write_class = True
                if name == "newfstatat":
                    pass
            if not ev.paths or name in ("newfstatat",):
                strs = _str.findall(a)
                paths = []
                if name in ("rename",):
                    paths = strs[:2]
                elif name in ("renameat", "renameat2", "linkat"):
                    # two dirfds; approximate both against their own bases
                    paths = strs[:2]
                elif name in ("symlink", "symlinkat"):
                    paths = strs[1:2]
                elif strs:
                    paths = strs[:1]
                ev.paths = [os.path.normpath(os.path.join(base, _unescape(p))) if not _unescape(p).startswith("/") else os.path.normpath(_unescape(p)) for p in paths]
            if name in ("openat", "open", "openat2", "creat"):
                fl = a
                ev.flags = "|".join(x for x in re.findall(r"O_[A-Z_]+", fl))
                if name == "creat" or any(w in ev.flags for w in WRITE_FLAGS):
                    ev.write_class = True
            elif name in PATH_WRITE_CALLS:
                ev.write_class = True
            elif name == "mmap" and "PROT_WRITE" in a and "MAP_SHARED" in a and ev.paths:
                ev.write_class = True
            events.append(ev)
    return events


def under(path, root):
    root = os.path.normpath(root)
    return path == root or path.startswith(root + "/")
