#!/usr/bin/env python3
"""Regenerate MANIFEST.json from the registry (development aid; the result is committed)."""
import json, os, subprocess, sys
sys.path.insert(0, os.path.dirname(os.path.abspath(__file__)))
import props

ALL = ["C%02d" % i for i in range(1, 21)]
hooks_commits = []
try:
    out = subprocess.run(["git", "-C", "/repo", "log", "--format=%H %s"], capture_output=True, text=True).stdout
    for l in out.splitlines():
        h, s = l.split(" ", 1)
        if s.startswith("verif-hook:"):
            hooks_commits.append(h)
except Exception:
    pass

checks = []
for p in ALL:
    if p not in props.REGISTRY:
        continue
    spec = props.REGISTRY[p]
    checks.append({
        "property_id": p,
        "quick_cmd": "./check %s --tier quick" % p,
        "thorough_cmd": "./check %s --tier thorough" % p,
        "evidence_file": "evidence/%s.json" % p,
        "replay_cmd_template": "./check replay {path}",
        "engine": spec.get("engine", "rqh + cli"),
        "level_claimed": {"category": spec.get("level", "exploration"), "text": spec["level_text"], "design_ref": "DESIGN.md §4 " + p},
        "level_note": spec["level_note"],
        "technique": spec["technique"],
    })
na = [{"property_id": p, "reason": props.NOT_CLAIMED.get(p, "check not built yet")} for p in ALL if p not in props.REGISTRY]
m = {
    "version": 1,
    "setup_cmd": "./check setup",
    "hooks": {
        "guard": "--cfg opensuse_rapidquilt_verif",
        "enable": "RUSTFLAGS=\"--cfg opensuse_rapidquilt_verif\" cargo build --release --config profile.release.lto=false --target-dir /verif/.build/bin (done by ./check; hooks are inert unless RAPIDQUILT_VERIF_* environment variables are set)",
        "baseline_off_cmd": "cd /repo && cargo test --workspace --no-fail-fast --offline",
        "source_commits": hooks_commits,
        "add_only": True,
    },
    "engines": [
        {"name": "rqh", "path": "harness/", "serves_properties": ["C01", "C02", "C03", "C04", "C11", "C12", "C20"],
         "kind_free_text": "Rust harness linked against /repo's libpatch: seeded and bounded-exhaustive generators, reference placement model and reconstruction oracles, counting allocator, catch_unwind; sharded over 16 processes with per-case progress markers so aborts/hangs are attributed"},
        {"name": "cli", "path": "lib/", "serves_properties": [p for p in ALL if p in props.REGISTRY],
         "kind_free_text": "Python drivers running the hooked rapidquilt binary on generated workspaces that carry their own ground truth; tree/.pc/.rej snapshots, strace syscall audit, LD_PRELOAD fault shim, hook event traces and forced schedules"},
    ],
    "checks": checks,
    "not_applicable": na,
    "notes": "All verdicts are three-valued (exit 0 held / exit 1 VIOLATION / exit 3 INCONCLUSIVE). Known findings: known_findings.json. Seeded breaks used to validate the monitors: seeded/.",
}
json.dump(m, open(os.path.join(os.path.dirname(os.path.dirname(os.path.abspath(__file__))), "MANIFEST.json"), "w"), indent=1)
print("checks:", [c["property_id"] for c in checks], "not claimed:", [n["property_id"] for n in na])
