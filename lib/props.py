"""Registry: which parts decide which property, the non-triviality rule that is
written into the evidence, and the observation floors below which a run is
inconclusive rather than 'held'."""

import json
import os

import common
import libprops as L
import cliprops as K
from common import log


def need(v, key, minimum):
    have = v.counters.get(key, 0)
    if have < minimum:
        return False, "only %d observations of '%s' (floor %d)" % (have, key, minimum)
    return True, ""


def floors(*reqs):
    def f(v):
        for key, minimum in reqs:
            ok, msg = need(v, key, minimum)
            if not ok:
                return ok, msg
        return True, ""
    return f


NOT_CLAIMED = {}

REGISTRY = {
    "C01": {
        "level_text": 'bounded-exhaustive + seeded random differential against a diff renderer that is independent of the code under test; held = no disagreement on the cases listed in the evidence',
        "level_note": 'trusted: the harness LCS renderer (validated against GNU diff/patch by ./check selftest), the Python udiff renderer; release build semantics',
        "technique": 'runtime monitoring: generated (A,B) pairs, result-equality oracle in-process and at CLI level',
        "parts": [L.lib_c01, K.cli_c01],
        "rule": "library layer: (A,B) pairs - every pair of versions with <= 3 (quick) / 4 (thorough) lines over {a,b,c}, with and without "
                "final newline, absent or empty, x context width 0..3 x direction, plus random larger pairs (<= 60 lines, small vocabularies, "
                "arbitrary bytes); the diff is rendered by the harness's own LCS renderer, parsed and applied by libpatch. Non-trivial: the diff "
                "has at least one hunk; distinct by hash of the whole case (file, patch text, direction).",
        "floor": floors(("hunk-applied", 1000), ("empty-side-hunk", 100)),
    },
    "C02": {
        "level_text": 'every hunk report of millions of real TextFilePatch::apply executions is checked online against an independent brute-force statement of the placement rules; exhaustive inside the stated small scope, random beyond',
        "level_note": 'trusted: the 60-line reference model in harness/src/oracle.rs (select/trims); the ordering restriction is mirrored, not asserted',
        "technique": 'runtime monitoring: online oracle over hunk reports vs brute-force placement model',
        "parts": [L.lib_c02, L.san_c02],
        "rule": "every single-hunk placement over files <= 5 (quick) / 6 (thorough) lines of {a,b}, prefix/suffix context <= 2, removed core <= 2, "
                "stated line 0..7 on the matched side and {same,1,+3} on the other side, fuzz limit 0..2, both directions (exhaustive); random drifted "
                "multi-hunk diffs and random two/three-hunk patches on repetitive files. Each hunk report is checked against an independent "
                "brute-force statement of the placement rules. Non-trivial: >= 2 matching positions, or offset != 0, or fuzz > 0, or anchored, or "
                "failed for lack of a match; distinct by hash of the case.",
        "floor": floors(("ambiguous", 1000), ("fuzz>0", 1000), ("offset!=0", 1000), ("anchored-start", 100), ("anchored-end", 100), ("failed-nomatch", 1000)),
    },
    "C03": {
        "level_text": 'result of real applications compared with a reconstruction that uses only the reports and the hunk text',
        "level_note": 'trusted: harness reader of its own patch rendering',
        "technique": 'runtime monitoring: reconstruction oracle over apply reports',
        "parts": [L.lib_c03, L.san_c03],
        "rule": "random 2-3 hunk patches on small repetitive files (neighbouring / overlapping context, different offsets, fuzz), random drifted "
                "multi-hunk diffs and stacks of patches; the result is compared with an independent reconstruction (original with the changed lines "
                "of each applied hunk replaced at its reported position). Non-trivial: >= 2 applied hunks or a partially applied patch.",
        "floor": floors(("multi-hunk", 1000), ("overlapping-context", 100), ("mixed-offsets", 100), ("partial", 100)),
    },
    "C04": {
        "level_text": 'apply/rollback stacks executed for real under catch_unwind with snapshots before each apply',
        "level_note": 'trusted: snapshots of ModifiedFile public fields',
        "technique": 'runtime monitoring: snapshot/restore invariant checked after every rollback',
        "parts": [L.lib_c04, L.san_c04, K.cli_c04],
        "rule": "library layer: apply then roll back stacks of 1-4 file patches (modify / create / delete in both header styles, mode changes, "
                "partial applications, fuzz) on one file; after each undo content, existence flag and permissions must equal the snapshot taken "
                "before the corresponding apply; a panic is a violation. Non-trivial: at least one hunk applied.",
        "floor": floors(("stack", 1000), ("partial", 100), ("create", 100), ("delete", 100), ("mode-change", 100), ("fuzz>0", 100)),
    },
    "C05": {
        "level_text": "thousands of real pushes of generated series whose expected tree after k patches is known by construction; exit status, applied-patches and the complete tree (paths, bytes, modes, directories) are compared",
        "level_note": "trusted: wsgen ground truth (version histories rendered by lib/udiff.py, validated against GNU diff/patch in selftest); umask 022",
        "technique": "runtime monitoring: ground-truth oracle over tree snapshots of real CLI runs",
        "parts": [K.cli_c05],
        "rule": "series of 1-8 patches over 1-6 files (modify/create/delete/rename/chmod/truncate, several entries per file, all header dialects, -pN, -R), "
                "a failing patch at a random position (poisoned hunks in a random subset of its files - also in a file patch that another one for the same file follows -, missing file, create-over-existing, "
                "delete-mismatch, misordered hunks, git rename onto an existing file) x backup always/onfail/never/default x threads 1/2/4/16 x -q/default/-v x prior applied state x goal -a/N. "
                "Non-trivial: the failing patch is not the first of the run, or it has several file entries; distinct by (workspace shape, configuration).",
        "floor": floors(("failing-patch-not-first", 100), ("multi-file-failing-patch", 100), ("runs-applying-everything", 100),
                        ("failing-file-patch-followed-by-another-for-the-same-file:verbosity=default", 10), ("prior-applied-patches-file-without-final-newline", 50), ("shape:patch-file-without-any-file-patch", 100), ("prior-applied-patches-file-of-zero-length", 100),
                        ("shape:empty-directories-in-the-starting-tree", 100)),
    },
    "C06": {
        "level_text": "differential: the same workspace pushed single-threaded and with N threads, naturally and under forced schedules (hook gates) that enumerate the run-ahead depth of the workers relative to the failing patch and perturb the save phase; tree, .pc, rejects, exit status compared; the realised interleaving is read back from the hook trace",
        "level_note": "trusted: hook gates only delay threads at points where the OS could deschedule them; schedules below file-patch / file-operation granularity are left to the OS; thorough adds ThreadSanitizer",
        "technique": "runtime monitoring: forced-schedule stress (hook gates) + differential oracle + offline trace checker; TSan in thorough",
        "parts": [K.cli_c06, K.san_c06],
        "rule": "series with renames / creates / deletes spread over several workers and a failing patch at a random position, threads 2/3/4/8/16, backup modes, -q/default, 10% dry-run; per workspace: one natural traced run, "
                "then no-run-ahead, full-run-ahead, one intermediate depth, the save worker owning the failing patch's files saving last / first (save-owner gates), and two random-delay schedules derived from the trace; "
                "25% of the failing series reject into a directory created by an earlier patch of the same run. Non-trivial/distinct: (workspace, thread count, realised interleaving signature = sorted run-ahead depth vector + unroll counts).",
        "floor": floors(("parallel-runs-compared", 1000), ("runs-with-run-ahead", 100), ("schedule:no-run-ahead", 50), ("schedule:full-run-ahead", 50), ("run-ahead-file-patches-unrolled", 100), ("rotation-shape-runs", 30), ("cleanup-race-shape:directory-shared-by-two-save-workers", 20),
                        ("schedule:failing-owner-saves-last", 30), ("schedule:failing-owner-saves-first", 30), ("shape:reject-in-a-directory-created-by-this-run", 30),
                        ("shape:unloadable-name-after-the-failing-patch:target", 5), ("shape:unloadable-name-after-the-failing-patch:rename-target", 5)),
    },
    "C07": {
        "level_text": "the real FilenameDistributor is driven (hook sub-command) over every canonical sequence of pairs within the bound and random longer ones and its map is compared with an independent union-find; in real parallel pushes the hook trace must show every file loaded by one apply worker and saved by one save worker",
        "level_note": "trusted: the verif-distribute driver passes pairs unchanged to FilenameDistributor::add/build; union-find in lib/cliprops.py",
        "technique": "runtime monitoring: exhaustive + random driving of the real component with a closure oracle; trace invariant over real runs",
        "parts": [K.cli_c07],
        "rule": "(1) every sequence of <= 5 (quick) / 6 (thorough) pairs over <= 5 names up to renaming x threads 2,3,4,7,16, plus random sequences of <= 40 pairs over <= 12 names with repeats; "
                "(2) rename-heavy series pushed with 2..16 threads with the trace on. Non-trivial: >= 2 relating pairs (closure), chains of >= 3 names (trace).",
        "floor": floors(("sequences-checked", 10000), ("components-of>=3-names", 1000), ("files-with-load-events", 1000), ("runs-with-chains-of>=3-names", 50)),
    },
    "C08": {
        "level_text": "backup files and applied-patches of real pushes are compared entry by entry with the pre-patch states known by construction, then popped in simulation",
        "level_note": "trusted: wsgen ground truth; zero-length-vs-absent ambiguity of the quilt backup format is not asserted",
        "technique": "runtime monitoring: ground-truth oracle over .pc snapshots + simulated pop",
        "parts": [K.cli_c08],
        "rule": "series of up to 10 patches on 1-4 files (several patches per file, several entries per file in a patch, creates/deletes/renames/chmod), "
                "backup always/onfail/never/default x backup-count all/0/1/2/5/100/default x prior applied state x goal -a/N x threads 1/4, incl. failing series. "
                "Non-trivial: backups expected and some file is touched by >= 2 applied patches inside the window.",
        "floor": floors(("runs-with-backups-expected", 200), ("runs-with-no-backups-expected", 200), ("file-touched-by>=2-patches-in-window", 50), ("rename-in-window", 20), ("prior-applied-state", 50)),
    },
    "C09": {
        "level_text": "differential: one invocation to a goal vs a random cut sequence of invocations to the same goal on a copy; then the final invocation is repeated",
        "level_note": "trusted: snapshots; 'push N' repeated is not an idempotence case (it legitimately applies N more)",
        "technique": "runtime monitoring: differential oracle over tree/.rej/applied-patches snapshots of split vs single pushes",
        "parts": [K.cli_c09],
        "rule": "random series (delete-then-recreate, create-then-modify, rename chains, mode changes, failing patches); goal g; single = push g / push <name> / push -a; "
                "split = random sequence of push / push n / push <name> / push -a with threads 1/2/4; the single invocation's record is also compared with what the goal means by construction; "
                "15% of the series keep patches in sub-directories (one named like the patch directory, with the base name of an earlier top-level patch), 20% of the workspaces are driven with -d (relative and absolute spellings) from the parent directory, "
                "10% reject into a directory created by an earlier patch of the series, 2% are the directed shape of known finding D28 (a path changes between file and directory). Non-trivial: >= 2 invocations of the split applied something.",
        "floor": floors(("splits-with>=2-applying-invocations", 200), ("idempotence-checked", 50), ("failure-resumption-checked", 50), ("goal-checked-against-ground-truth", 1000),
                        ("workspaces-with-patches-in-sub-directories", 100), ("workspaces-driven-with--d:relative", 100), ("shape:path-changes-between-file-and-directory", 20)),
    },
    "C10": {
        "level_text": "real --dry-run executions under strace: full recursive snapshot (bytes, mode, inode, nlink, mtime) before/after, audit of every write-class syscall, and comparison of exit status / failing patch with a real run on a copy",
        "level_note": "trusted: strace -f decoding (lib/stracelog.py); atime is not compared",
        "technique": "runtime monitoring: snapshot invariant + syscall-log audit + differential prediction oracle",
        "parts": [K.cli_c10],
        "rule": "C05-style workspaces incl. failing series x threads 1/4 x backup modes x -q/default/-v x prior applied state x goal (-a / number / name); 35% combine --dry-run with 1-3 of -F n, -A multiapply, --mmap, --stats, --color always, --backup-count. "
                "Non-trivial: the corresponding real run changes the working directory.",
        "floor": floors(("real-run-writes-something", 200), ("dry-runs:exit=1", 100), ("dry-runs:exit=0", 100), ("syscalls-audited", 10000), ("dry-runs-under-a-forced-flag-order", 20), ("dry-runs-with-other-options", 300)),
    },
    "C11": {
        "level_text": 'parser and follow-up application run on bounded-exhaustive line sequences, numeric extremes, mutants; panics caught, allocations counted, aborts/hangs attributed per case',
        "level_note": 'trusted: counting GlobalAlloc wrapper; 20 s isolated re-run decides non-termination',
        "technique": 'runtime monitoring: catch_unwind + counting allocator + process-level crash attribution; Miri in thorough',
        "parts": [L.lib_c11, L.san_c11, K.cli_c11],
        "rule": "library layer: all sequences of <= 4 (quick) / 5 (thorough) lines over a 28-line vocabulary of meaningful patch lines, numeric "
                "extremes (0 .. 10^30) in every numeric position of 6 templates, line/byte mutations and truncations of a corpus (testdata + generated "
                "patches), random bytes, grammar-generated valid patches; each parsed with strip 1 and 0 under catch_unwind with a counting allocator "
                "(budget 128*len+64KiB), every Ok patch applied/rolled back on 4 small files and written. Non-trivial: the input contains a "
                "recognisable header or hunk marker; distinct by hash of the input.",
        "floor": floors(("outcome:Err:BadHunkHeader", 100), ("outcome:Err:BadLineInHunk", 100), ("outcome:Err:UnexpectedEndOfFile", 100), ("outcome:Ok:1", 1000)),
    },
    "C12": {
        "level_text": 'parse-write-parse-write executed on every parseable generated input and compared field by field',
        "level_note": 'trusted: field accessors of FilePatch',
        "technique": 'runtime monitoring: round-trip oracle',
        "parts": [L.lib_c12, L.san_c12],
        "rule": "every parseable input among: the repository's test patches, grammar-generated valid patches over all dialects / metadata "
                "combinations / quoted names / empty-side hunks / missing newlines, corpus mutants and vocabulary sequences. parse -> write -> "
                "parse must give the same file patches (kind, names, rename, modes, hashes, hunk lines, start lines) and write must be a fixed "
                "point. Non-trivial: the input parses into >= 1 file patch; distinct by hash of the input.",
        "floor": floors(("rename", 100), ("modes", 100), ("special-name", 100), ("empty-side", 100), ("no-newline", 100), ("create", 100), ("delete", 100)),
    },
    "C13": {
        "level_text": "reject files of real failing pushes are read back (own hunk reader) and compared with the hunks that fail by construction",
        "level_note": "trusted: wsgen poison construction (a removed/context line replaced by a token that occurs nowhere cannot match at fuzz 0); lib/udiff.read_hunks",
        "technique": "runtime monitoring: ground-truth oracle over *.rej snapshots",
        "parts": [K.cli_c13],
        "rule": "failing patches with failures in a random subset of their files and hunks (poisoned hunks, missing file, create-over-existing, delete-mismatch, "
                "misordered), files in sub-directories / without extension / several dots / in a directory that does not exist, reversed patches, threads 1/2/4/16. "
                "Non-trivial: the failing patch has >= 2 file entries or a file with both applying and failing hunks.",
        "floor": floors(("reject-files-verified", 500), ("file-with-applying-and-failing-hunks", 50), ("several-files-rejected", 50), ("reject-legitimately-skipped-(no-directory)", 20), ("shape:reject-in-a-directory-created-by-this-run", 20),
                        ("shape:failed-hunk-between-hunks-applied-with-an-offset", 30), ("shape:two-failing-file-patches-for-one-file", 30), ("shape:failing-hunk-that-replaces-a-long-block", 20),
                        ("stale-reject-files-in-place", 100), ("rejects-read-back-with-the-tool's-parser", 500)),
    },
    "C14": {
        "level_text": "differential over the option lattice: the same workspace pushed with -q and with a random option set; tree, .pc, rejects and exit status compared",
        "level_note": "trusted: snapshots; stdout/stderr are not compared (the options may change what is printed)",
        "technique": "runtime monitoring: differential oracle across presentation/loader options",
        "parts": [K.cli_c14, K.san_c14],
        "rule": "baseline -q vs --mmap / default verbosity / -v / -vv / --color always|never / --stats / -A multiapply and combinations, over random series incl. failing ones, "
                "zero-length source files, zero-length patch files, empty series, everything already applied, goal naming an applied patch; threads 1/4; backup always/default/never. "
                "Non-trivial: the run fails or has at least one patch to apply; distinct by (workspace, shape, option set, configuration).",
        "floor": floors(("shape:empty-source", 50), ("shape:empty-patch", 50), ("shape:empty-series", 50), ("shape:all-applied", 50), ("shape:goal-applied", 50), ("shape:symlinked-source", 50), ("shape:symlinked-patch", 50), ("shape:many-files-low-fd-limit", 50), ("shape:page-multiple-source", 50), ("shape:rename-over-a-file-the-failing-patch-emptied", 50), ("failing-series", 200), ("options:--mmap", 100)),
    },
    "C15": {
        "level_text": "real pushes under strace on a workspace whose files are hard-linked into a twin tree (all files, some, or none; a file without a twin is held open by the monitor instead); inode identity, twin content, the bytes and link count seen through the held descriptors and every syscall on bystander files are checked",
        "level_note": "trusted: strace decoding; os.link twin; descriptors opened before the push",
        "technique": "runtime monitoring: hard-link twin invariant + syscall-log audit",
        "parts": [K.cli_c15, K.san_c15],
        "rule": "modify/truncate/delete/rename/mode change, failing series (files re-saved after rollback), both loaders, threads 1/4; twin of all / some / no files (50/25/25 %), the others held open; three bystander files that no patch names. "
                "Non-trivial: at least one file was replaced.",
        "floor": floors(("files-replaced", 500), ("bystanders-verified", 1000), ("failing-series-(files-resaved-after-rollback)", 50), ("runs-with-an-injected-output-fault", 100),
                        ("held-open-files-replaced", 200), ("twin:none", 100)),
    },
    "C16": {
        "level_text": "real pushes of series files in random accepted spellings, and of directed workspaces enumerating the 16 combinations of old/new name state; the resulting tree and .pc entries are compared with ground truth",
        "level_note": "trusted: wsgen ground truth; strip levels >= path depth are not asserted (not defined by the statement)",
        "technique": "runtime monitoring: ground-truth oracle over tree/.pc snapshots",
        "parts": [K.cli_c16],
        "rule": "(a) options: -pN / -p N / --strip=N / --strip N, -R / --reverse, any order, blanks and tabs, comment and blank lines between entries, over random series with strip 0..3 "
                "and reversed patches; (b) names: a file patch with differing ---/+++ names, each name in state exists-on-disk / created-earlier-in-run / deleted-earlier-in-run / absent "
                "(16 combinations) x strip 0..2 x single sequential / single parallel / split push. Non-trivial: non-default options, or differing names.",
        "floor": floors(("options-runs", 500), ("names-runs", 500), ("reverse", 50), ("strip=0", 50), ("strip=2", 50), ("strip=3", 50)),
    },
    "C17": {
        "level_text": "real pushes on workspaces with inconsistent quilt state, bad goal arguments or a missing/unreadable/unparseable patch file; exit status, message and a full snapshot (incl. inodes and mtimes) are checked",
        "level_note": "trusted: snapshots; 'unreadable' is simulated by a directory in place of the patch file (the checks run as root)",
        "technique": "runtime monitoring: refusal oracle (exit status, stderr, snapshot invariant)",
        "parts": [K.cli_c17],
        "rule": "applied-patches longer than series / with unknown names / reordered / edited / duplicated / garbage; goal = unknown name, already applied name (also when everything is applied), "
                "a number too big to parse, a truncated name; a missing / directory / truncated / malformed / binary / nameless patch at a random position of the range with no failing patch before it; "
                "huge parseable counts (2^64-1, 2^63, 2^32, 0) must behave like 'as many as there are'. threads 1/4, -q/default, prior applied state, 20% with -d (relative / absolute) from the parent directory. All cases are refusal paths; distinct by (case, state, goal, configuration).",
        "floor": floors(("refusals-verified", 1000), ("huge-counts-verified", 100), ("case:state:longer", 20), ("case:goal:applied-name-all-applied", 20), ("case:badpatch:missing", 20), ("runs-with--d", 200), ("goal-cases-with--a-as-well", 100)),
    },
    "C18": {
        "level": "fault_enumeration",
        "level_text": "for each workspace the output operations of a fault-free run are counted by an LD_PRELOAD shim (one global counter over all threads) and the run is repeated once per operation with that operation failing; exit status, message and applied-patches are checked",
        "level_note": "trusted: shim interposition of open/open64/openat/creat/write/writev/unlink/mkdir/rmdir/chmod/fchmod/rename/ftruncate; a write can also be made a SHORT write followed by 'no more room' on that descriptor; close/fsync failures are not modelled; in parallel runs the k-th operation may differ from the baseline's (it is still one output operation of that run)",
        "technique": "runtime monitoring with fault injection: k-th-output-operation enumeration via LD_PRELOAD shim",
        "parts": [K.cli_c18],
        "rule": "random series (incl. failing ones, so rejects are written) pushed with --backup always, sequential and 4 threads; every k = 1..n of the n output operations of the fault-free run is failed in turn "
                "(ENOSPC for open/write/mkdir, EACCES/EIO for unlink/rmdir/fchmod); every write is also turned into a short write (half of the bytes taken, then ENOSPC); a third of the workspaces have files whose LAST line is longer than the 8 KiB buffer. Non-trivial: the fault was actually injected (shim log); distinct by (operation kind, output class, driver, workspace, k).",
        "floor": floors(("faults-injected", 500), ("fault:write:tree", 20), ("fault:open:backup", 20), ("fault:open:reject", 5), ("fault:open:applied-patches", 20), ("fault:unlink:tree", 20), ("fault:mkdir:backup", 5),
                        ("fault:write:tree:short", 50), ("fault:write:backup:short", 50), ("short-writes-inside-a-line-longer-than-the-buffer", 20)),
    },
    "C19": {
        "level_text": "real pushes under strace inside a sentinel directory with decoy files at the places escaping names point to; sentinel snapshot, syscall audit, exit status and clean-failure oracle",
        "level_note": "trusted: strace decoding; symlinks inside the tree are out of scope (the statement is about names)",
        "technique": "runtime monitoring: sentinel snapshot + syscall-log audit",
        "parts": [K.cli_c19],
        "rule": "10 escaping spellings (absolute, '..' surviving -p0/-p1/-p2, inner and trailing '..', './..') x position (---, +++, both, diff --git line, rename source/target) x "
                "modify/create/delete of decoys, incl. creation- and deletion-shaped hunks with two real names (one escaping, one inside) x quoted with octal escapes or not x threads 1/4 x position of the offending patch in a random series. "
                "Non-trivial: all of them (every name resolves outside the workspace); distinct by (spelling, position, action, quoting, threads, series).",
        "floor": floors(("held-runs", 500), ("syscalls-audited", 10000), ("inside-name-already-touched-by-an-earlier-patch", 100)),
    },
    "C20": {
        "level_text": 'metamorphic: same case executed under 11 fuzz limits (8 usable ones and 3 that no hunk can use), reports and content compared',
        "level_note": 'trusted: none beyond the harness',
        "technique": 'runtime monitoring: metamorphic oracle across fuzz limits',
        "parts": [L.lib_c20, K.cli_c20],
        "rule": "library layer: each random drifted / multi-hunk / stacked case is applied with limits 0,1,2,3,4,5,10,1000, 2^32, 2^63-1, 2^64-1; from the least limit "
                "F0 at which every hunk applies, all larger limits must give identical hunk reports and content. Non-trivial: F0 >= 1, or F0 = 0 "
                "with context that a higher level could trim.  CLI layer: -F 0..3 to find F0, then {1..4, 10, 1000, one of 2^32 / 10^18 / 2^63-1 / 2^63 / 2^64-1}.",
        "floor": floors(("F0>=1", 1000), ("F0=0-with-context", 1000), ("huge-limit-compared", 100)),
    },
}


def setup():
    try:
        common.build_harness()
        common.build_binary()
        common.build_shim()
    except common.Inconclusive as e:
        log(str(e))
        return 1
    return 0


def replay(prop, path, meta):
    import hrun
    common.build_harness()
    if meta.get("engine") == "harness":
        case = os.path.join(path, "case.txt")
        if os.path.exists(case):
            rc, out = hrun.replay_case(prop, case)
            print(out)
            return rc
        print("replay by generator index: " + meta.get("replay", "?"))
        return os.system(meta.get("replay", "false")) >> 8
    if meta.get("worker") and "worker_seed" in meta:
        # CLI case: the worker regenerates the workspace from its seed and applies its oracle again (several
        # times, because some cases depend on the thread schedule)
        import cliprops
        fn = getattr(cliprops, meta["worker"])
        b = cliprops.rq()
        extra = ()
        if meta["worker"] == "c06_tsan_worker":
            extra = (common.build_tsan_binary(),)
        if meta["worker"] in ("c18_worker", "c15_worker"):
            common.build_shim()
        hits = 0
        for i in range(5):
            res = fn((meta["worker_seed"], b) + extra)
            for v in res.get("violations", []):
                hits += 1
                print("VIOLATED %s %s :: %s" % (prop, json.dumps(v["sig"], sort_keys=True), v["detail"][:800]))
            if hits:
                break
        if hits:
            return 1
        print("HELD (5 executions of %s with seed %d)" % (meta["worker"], meta["worker_seed"]))
        return 0
    print("no replay engine for this record")
    return 2
