"""Library-layer parts of the checks (in-process harness)."""

from common import build_harness
from hrun import run_gen

Q = "quick"


def n(tier, quick, thorough):
    return quick if tier == Q else thorough


def lib_c01(v, tier, seed):
    build_harness()
    run_gen(v, "C01", "pair-exhaustive", seed, 10**9, param=n(tier, 3, 4))
    run_gen(v, "C01", "pair", seed, n(tier, 600_000, 12_000_000))


def lib_c02(v, tier, seed):
    build_harness()
    m = run_gen(v, "C02", "place-exhaustive", seed, 10**10, param=n(tier, 5, 6))
    v.extra["exhaustive_space"] = {"generator": "place-exhaustive", "size": m["space_total"], "evaluated": m["evaluations"]}
    run_gen(v, "C02", "drift", seed, n(tier, 1_500_000, 30_000_000))
    run_gen(v, "C02", "two", seed, n(tier, 1_000_000, 20_000_000))


def lib_c03(v, tier, seed):
    build_harness()
    run_gen(v, "C03", "two", seed, n(tier, 2_000_000, 40_000_000))
    run_gen(v, "C03", "drift", seed, n(tier, 1_000_000, 20_000_000))
    run_gen(v, "C03", "stack", seed, n(tier, 300_000, 5_000_000))


def lib_c04(v, tier, seed):
    build_harness()
    run_gen(v, "C04", "stack", seed, n(tier, 1_000_000, 20_000_000))
    run_gen(v, "C04", "two", seed, n(tier, 1_000_000, 20_000_000))
    run_gen(v, "C04", "drift", seed, n(tier, 600_000, 10_000_000))
    run_gen(v, "C04", "pair", seed, n(tier, 300_000, 5_000_000))


def lib_c11(v, tier, seed):
    build_harness()
    m = run_gen(v, "C11", "vocab", seed, 10**10, param=n(tier, 4, 5))
    v.extra["exhaustive_space"] = {"generator": "vocab (all sequences of <= %d lines over a %d-line vocabulary, with/without final newline)" % (n(tier, 4, 5), 28),
                                   "size": m["space_total"], "evaluated": m["evaluations"]}
    run_gen(v, "C11", "numeric", seed, 10**9)
    run_gen(v, "C11", "mutant", seed, n(tier, 1_000_000, 20_000_000))
    run_gen(v, "C11", "bytes", seed, n(tier, 300_000, 3_000_000))
    run_gen(v, "C11", "valid", seed, n(tier, 200_000, 3_000_000))


def lib_c12(v, tier, seed):
    build_harness()
    run_gen(v, "C12", "corpus", seed, 10**6)
    run_gen(v, "C12", "valid", seed, n(tier, 600_000, 10_000_000))
    run_gen(v, "C12", "mutant", seed, n(tier, 1_000_000, 20_000_000))
    run_gen(v, "C12", "vocab", seed, 10**10, param=n(tier, 4, 5))


def lib_c20(v, tier, seed):
    build_harness()
    run_gen(v, "C20", "drift", seed, n(tier, 600_000, 10_000_000))
    run_gen(v, "C20", "two", seed, n(tier, 400_000, 8_000_000))
    run_gen(v, "C20", "stack", seed, n(tier, 200_000, 3_000_000))
