"""Library-layer parts of the checks (in-process harness)."""

from common import build_harness, build_harness_checked
from hrun import run_gen, run_miri

Q = "quick"


def n(tier, quick, thorough):
    return quick if tier == Q else thorough


def directed(v, prop):
    """Replay the directed cases of this property first (one per repaired or recorded defect):
    a regression of a repaired defect is reported at once, a recorded one is shown to be still there."""
    import glob
    import os
    import subprocess
    from common import HARNESS_BIN, VERIF, clean_env
    for path in sorted(glob.glob(os.path.join(VERIF, "cases", prop, "*.case"))):
        name = os.path.basename(path)[:-5]
        try:
            p = subprocess.run([HARNESS_BIN, "replay", "--prop", prop, path], env=clean_env(), stdout=subprocess.PIPE, stderr=subprocess.PIPE, timeout=30)
            rc, out = p.returncode, p.stdout.decode("utf-8", "replace")
        except subprocess.TimeoutExpired:
            rc, out = "timeout", ""
        v.evaluations += 1
        v.count("directed-cases-replayed")
        if rc == 0:
            continue
        if rc == 1:
            for l in out.splitlines():
                if l.startswith("VIOLATED "):
                    head, _, detail = l.partition(" :: ")
                    sigtxt = head.split(" ", 2)[2] if len(head.split(" ", 2)) > 2 else ""
                    sig = {"engine": "harness", "directed": name}
                    for kv in sigtxt.split(";"):
                        if "=" in kv:
                            a, b = kv.split("=", 1)
                            sig[a] = b
                    v.violation(sig, "directed case " + name + ": " + detail, payload={"engine": "harness", "case_file": path}, files={"case.txt": open(path).read()})
        else:
            cls = {"timeout": "no-termination-within-watchdog", 86: "giant-allocation-request"}.get(rc, "process-abort")
            v.violation({"engine": "harness", "directed": name, "class": cls}, "directed case " + name + " ends with " + str(rc), payload={"engine": "harness", "case_file": path},
                        files={"case.txt": open(path).read()})


def lib_c01(v, tier, seed):
    build_harness()
    directed(v, "C01")
    run_gen(v, "C01", "pair-exhaustive", seed, 10**9, param=n(tier, 3, 4))
    run_gen(v, "C01", "pair", seed, n(tier, 600_000, 12_000_000))


def lib_c02(v, tier, seed):
    build_harness()
    directed(v, "C02")
    m = run_gen(v, "C02", "place-exhaustive", seed, 10**10, param=n(tier, 5, 6))
    v.extra["exhaustive_space"] = {"generator": "place-exhaustive", "size": m["space_total"], "evaluated": m["evaluations"]}
    run_gen(v, "C02", "drift", seed, n(tier, 1_500_000, 30_000_000))
    run_gen(v, "C02", "two", seed, n(tier, 1_000_000, 20_000_000))


def lib_c03(v, tier, seed):
    build_harness()
    directed(v, "C03")
    run_gen(v, "C03", "two", seed, n(tier, 2_000_000, 40_000_000))
    run_gen(v, "C03", "drift", seed, n(tier, 1_000_000, 20_000_000))
    run_gen(v, "C03", "stack", seed, n(tier, 300_000, 5_000_000))


def lib_c04(v, tier, seed):
    build_harness()
    directed(v, "C04")
    run_gen(v, "C04", "stack", seed, n(tier, 1_000_000, 20_000_000))
    run_gen(v, "C04", "two", seed, n(tier, 1_000_000, 20_000_000))
    run_gen(v, "C04", "drift", seed, n(tier, 600_000, 10_000_000))
    run_gen(v, "C04", "pair", seed, n(tier, 300_000, 5_000_000))


def lib_c11(v, tier, seed):
    build_harness()
    directed(v, "C11")
    m = run_gen(v, "C11", "vocab", seed, 10**10, param=n(tier, 4, 5))
    v.extra["exhaustive_space"] = {"generator": "vocab (all sequences of <= %d lines over a %d-line vocabulary, with/without final newline)" % (n(tier, 4, 5), 28),
                                   "size": m["space_total"], "evaluated": m["evaluations"]}
    run_gen(v, "C11", "numeric", seed, 10**9)
    run_gen(v, "C11", "mutant", seed, n(tier, 1_000_000, 20_000_000))
    run_gen(v, "C11", "bytes", seed, n(tier, 300_000, 3_000_000))
    run_gen(v, "C11", "valid", seed, n(tier, 200_000, 3_000_000))


def lib_c12(v, tier, seed):
    build_harness()
    directed(v, "C12")
    run_gen(v, "C12", "corpus", seed, 10**6)
    run_gen(v, "C12", "valid", seed, n(tier, 600_000, 10_000_000))
    run_gen(v, "C12", "mutant", seed, n(tier, 1_000_000, 20_000_000))
    run_gen(v, "C12", "vocab", seed, 10**10, param=n(tier, 4, 5))


def lib_c20(v, tier, seed):
    build_harness()
    run_gen(v, "C20", "drift", seed, n(tier, 600_000, 10_000_000))
    run_gen(v, "C20", "two", seed, n(tier, 400_000, 8_000_000))
    run_gen(v, "C20", "stack", seed, n(tier, 200_000, 3_000_000))


# ----------------------------------------------------------------------------
# sanitizer layers (thorough tier only)


def _checked(v, prop, gens, seed):
    """the same workloads on a build with overflow checks and debug assertions trapping"""
    b = build_harness_checked()
    for gen, count, param in gens:
        run_gen(v, prop, gen, seed + 7, count, param=param, binary=b, build_tag="overflow-checks")


def san_c02(v, tier, seed):
    if tier == Q:
        return
    _checked(v, "C02", [("drift", 3_000_000, 3), ("two", 3_000_000, 3), ("place-exhaustive", 10**10, 5)], seed)
    run_miri(v, "C02", "drift", seed, 25)
    run_miri(v, "C02", "two", seed, 30)


def san_c03(v, tier, seed):
    if tier == Q:
        return
    _checked(v, "C03", [("two", 4_000_000, 3), ("drift", 2_000_000, 3)], seed)
    run_miri(v, "C03", "two", seed, 35)


def san_c04(v, tier, seed):
    if tier == Q:
        return
    _checked(v, "C04", [("stack", 3_000_000, 3), ("two", 3_000_000, 3)], seed)
    run_miri(v, "C04", "stack", seed, 20)


def san_c11(v, tier, seed):
    if tier == Q:
        return
    _checked(v, "C11", [("vocab", 10**10, 4), ("numeric", 10**9, 3), ("mutant", 4_000_000, 3), ("valid", 500_000, 3)], seed)
    run_miri(v, "C11", "mutant", seed, 40)
    run_miri(v, "C11", "numeric", seed, 30)


def san_c12(v, tier, seed):
    if tier == Q:
        return
    _checked(v, "C12", [("valid", 2_000_000, 3), ("mutant", 3_000_000, 3)], seed)
    run_miri(v, "C12", "valid", seed, 20)
    run_miri(v, "C12", "mutant", seed, 40)
