#!/usr/bin/env python3
"""Run the owning checks against every seeded change under /verif/seeded (development aid, not a registered check).

  lib/seedrun.py [id ...]      apply seeded/<id>/patch.diff to /repo, run the quick checks named in meta.json["breaks"]
                               (or given with --props), undo the change, and record which checks raised a VIOLATION.
"""
import json, os, subprocess, sys, time
VERIF = os.path.dirname(os.path.dirname(os.path.abspath(__file__)))
REPO = "/repo"

def sh(cmd, **kw):
    return subprocess.run(cmd, shell=True, stdout=subprocess.PIPE, stderr=subprocess.STDOUT, text=True, **kw)

def main():
    args = [a for a in sys.argv[1:] if not a.startswith("--")]
    props_override = None
    for a in sys.argv[1:]:
        if a.startswith("--props="):
            props_override = a.split("=", 1)[1].split(",")
    ids = args or sorted(d for d in os.listdir(os.path.join(VERIF, "seeded")) if os.path.exists(os.path.join(VERIF, "seeded", d, "patch.diff")))
    if sh("git -C %s status --porcelain" % REPO).stdout.strip():
        print("refusing: /repo has local changes"); return 2
    results = {}
    rp = os.path.join(VERIF, "seeded", "RESULTS.json")
    if os.path.exists(rp):
        results = json.load(open(rp))
    for i in ids:
        d = os.path.join(VERIF, "seeded", i)
        meta = json.load(open(os.path.join(d, "meta.json")))
        props = props_override or meta.get("breaks", [])
        a = sh("git -C %s apply %s" % (REPO, os.path.join(d, "patch.diff")))
        if a.returncode != 0:
            print(i, "patch does not apply:", a.stdout[-300:]); results[i] = {"error": "patch does not apply"}; continue
        try:
            out = {}
            for p in props:
                t0 = time.time()
                r = sh("cd %s && ./check %s --tier quick" % (VERIF, p), timeout=3600)
                lines = [l for l in r.stdout.splitlines() if l.startswith("VIOLATION") or l.startswith("INCONCLUSIVE")]
                sigs = [l.strip() for l in r.stdout.splitlines() if l.strip().startswith("signature:")]
                out[p] = {"exit": r.returncode, "caught": r.returncode == 1 and any(l.startswith("VIOLATION") for l in lines), "wall_s": round(time.time() - t0, 1),
                          "signatures": sorted(set(sigs))[:4]}
                print(i, p, "caught" if out[p]["caught"] else "MISSED (exit %d)" % r.returncode, out[p]["signatures"][:2])
            results[i] = out
        finally:
            sh("git -C %s checkout -- . && git -C %s clean -fdq src" % (REPO, REPO))
    json.dump(results, open(rp, "w"), indent=1, sort_keys=True)
    # evidence files were rewritten by runs on a modified tree: restore the committed ones
    sh("git -C %s checkout -- evidence" % VERIF)
    return 0

if __name__ == "__main__":
    sys.exit(main())
