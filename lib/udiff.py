"""Own unified-diff renderer over byte lines (GNU numbering for empty sides,
'\\ No newline at end of file', header dialects) and a reader for hunks."""

import difflib

NONL = b"\\ No newline at end of file\n"


def split_lines(data):
    """bytes -> list of lines each keeping its newline (last may lack it)"""
    if not data:
        return []
    out = data.split(b"\n")
    res = [l + b"\n" for l in out[:-1]]
    if out[-1] != b"":
        res.append(out[-1])
    return res


def _range(start, count, salt):
    if count == 1 and (start + salt) % 2 == 0:
        return b"%d" % start
    return b"%d,%d" % (start, count)


class Hunk:
    __slots__ = ("old_start", "new_start", "lines")

    def __init__(self, old_start, new_start, lines):
        self.old_start = old_start   # as printed
        self.new_start = new_start
        self.lines = lines           # list of (tag, bytes) tag in b' -+'

    def old(self):
        return [l for t, l in self.lines if t != b"+"]

    def new(self):
        return [l for t, l in self.lines if t != b"-"]

    def render(self):
        o, n = self.old(), self.new()
        # GNU diff prints a count of 1 as nothing ("@@ -3 +3,2 @@"); which sides get the short form is derived from
        # the hunk itself, so no random draw is consumed and the same hunk always renders the same way
        out = [b"@@ -%s +%s @@\n" % (_range(self.old_start, len(o), len(self.lines)), _range(self.new_start, len(n), len(self.lines) + 1))]
        for t, l in self.lines:
            out.append(t + l)
            if not l.endswith(b"\n"):
                out.append(b"\n" + NONL)
        return b"".join(out)

    def has_removal(self):
        return any(t == b"-" for t, _ in self.lines)

    def key(self):
        """structural identity used to compare with reject files"""
        return (tuple(self.old()), tuple(self.new()), self.old_start if self.old() else self.old_start, self.new_start)

    def reversed(self):
        sw = {b" ": b" ", b"-": b"+", b"+": b"-"}
        # keep removals before additions inside each change block
        lines = []
        block = []
        for t, l in self.lines:
            if t == b" ":
                lines.extend(sorted(block, key=lambda x: 0 if x[0] == b"-" else 1))
                block = []
                lines.append((t, l))
            else:
                block.append((sw[t], l))
        lines.extend(sorted(block, key=lambda x: 0 if x[0] == b"-" else 1))
        return Hunk(self.new_start, self.old_start, lines)


def diff_hunks(a, b, ctx=3):
    """a, b: lists of byte lines. Returns list of Hunk (exact diff a -> b)."""
    sm = difflib.SequenceMatcher(None, a, b, autojunk=False)
    hunks = []
    for group in sm.get_grouped_opcodes(ctx):
        i1, i2, j1, j2 = group[0][1], group[-1][2], group[0][3], group[-1][4]
        lines = []
        for tag, a1, a2, b1, b2 in group:
            if tag == "equal":
                lines.extend((b" ", l) for l in a[a1:a2])
            else:
                if tag in ("replace", "delete"):
                    lines.extend((b"-", l) for l in a[a1:a2])
                if tag in ("replace", "insert"):
                    lines.extend((b"+", l) for l in b[b1:b2])
        if all(t == b" " for t, _ in lines):
            continue
        oc, nc = i2 - i1, j2 - j1
        old_start = i1 + 1 if oc else i1
        new_start = j1 + 1 if nc else j1
        hunks.append(Hunk(old_start, new_start, lines))
    return hunks


def quote_name(name):
    """C-style quoting as git / GNU diff do when a name needs it"""
    if isinstance(name, str):
        name = name.encode()
    if name and not any(c <= 0x20 or c in (0x22, 0x5c) or c >= 0x7f for c in name):
        return name
    out = [b'"']
    for c in name:
        if c == 0x22:
            out.append(b'\\"')
        elif c == 0x5c:
            out.append(b"\\\\")
        elif c == 0x09:
            out.append(b"\\t")
        elif c == 0x0a:
            out.append(b"\\n")
        elif 0x20 <= c < 0x7f:
            out.append(bytes([c]))
        else:
            out.append(b"\\%03o" % c)
    out.append(b'"')
    return b"".join(out)


def read_hunks(text):
    """Read the hunks of a (single file) patch / reject file. Returns (header lines, [Hunk])"""
    lines = split_lines(text)
    header = []
    hunks = []
    i = 0
    import re
    rx = re.compile(rb"^@@ -(\d+)(?:,(\d+))? \+(\d+)(?:,(\d+))? @@")
    while i < len(lines):
        m = rx.match(lines[i])
        if not m:
            if not hunks:
                header.append(lines[i])
            i += 1
            continue
        os_, oc, ns, nc = int(m.group(1)), m.group(2), int(m.group(3)), m.group(4)
        oc = 1 if oc is None else int(oc)
        nc = 1 if nc is None else int(nc)
        h = Hunk(os_, ns, [])
        i += 1
        while (oc > 0 or nc > 0) and i < len(lines):
            l = lines[i]
            t = l[:1]
            if t == b"\\":
                if h.lines and h.lines[-1][1].endswith(b"\n"):
                    h.lines[-1] = (h.lines[-1][0], h.lines[-1][1][:-1])
                i += 1
                continue
            if t == b" ":
                oc -= 1
                nc -= 1
            elif t == b"-":
                oc -= 1
            elif t == b"+":
                nc -= 1
            else:
                break
            h.lines.append((t, l[1:]))
            i += 1
        if i < len(lines) and lines[i].startswith(b"\\"):
            if h.lines and h.lines[-1][1].endswith(b"\n"):
                h.lines[-1] = (h.lines[-1][0], h.lines[-1][1][:-1])
            i += 1
        hunks.append(h)
    return header, hunks
