//! Counting allocator: live bytes, peak and the largest single request, so that
//! a check can bound what one call allocates.  Requests above HARD_CAP are
//! refused (null), which turns an absurd reservation into an abort of the
//! (forked) case process instead of an attempt to map terabytes.

use std::alloc::{GlobalAlloc, Layout, System};
use std::sync::atomic::{AtomicUsize, Ordering};

pub struct Counting;

static LIVE: AtomicUsize = AtomicUsize::new(0);
static PEAK: AtomicUsize = AtomicUsize::new(0);
static MAXREQ: AtomicUsize = AtomicUsize::new(0);
pub static HARD_CAP: AtomicUsize = AtomicUsize::new(1 << 34);

unsafe impl GlobalAlloc for Counting {
    unsafe fn alloc(&self, l: Layout) -> *mut u8 {
        note(l.size());
        if l.size() > HARD_CAP.load(Ordering::Relaxed) { return std::ptr::null_mut(); }
        let p = System.alloc(l);
        if !p.is_null() { add(l.size()); }
        p
    }
    unsafe fn dealloc(&self, p: *mut u8, l: Layout) {
        LIVE.fetch_sub(l.size(), Ordering::Relaxed);
        System.dealloc(p, l)
    }
    unsafe fn alloc_zeroed(&self, l: Layout) -> *mut u8 {
        note(l.size());
        if l.size() > HARD_CAP.load(Ordering::Relaxed) { return std::ptr::null_mut(); }
        let p = System.alloc_zeroed(l);
        if !p.is_null() { add(l.size()); }
        p
    }
    unsafe fn realloc(&self, p: *mut u8, l: Layout, new: usize) -> *mut u8 {
        note(new);
        if new > HARD_CAP.load(Ordering::Relaxed) { return std::ptr::null_mut(); }
        let q = System.realloc(p, l, new);
        if !q.is_null() {
            LIVE.fetch_sub(l.size(), Ordering::Relaxed);
            add(new);
        }
        q
    }
}

fn note(sz: usize) {
    MAXREQ.fetch_max(sz, Ordering::Relaxed);
}

fn add(sz: usize) {
    let now = LIVE.fetch_add(sz, Ordering::Relaxed) + sz;
    PEAK.fetch_max(now, Ordering::Relaxed);
}

/// start a measurement window; returns live bytes at start
pub fn begin() -> usize {
    let live = LIVE.load(Ordering::Relaxed);
    PEAK.store(live, Ordering::Relaxed);
    MAXREQ.store(0, Ordering::Relaxed);
    live
}

/// (peak growth over the window, largest single request in the window)
pub fn end(start_live: usize) -> (usize, usize) {
    (PEAK.load(Ordering::Relaxed).saturating_sub(start_live), MAXREQ.load(Ordering::Relaxed))
}
