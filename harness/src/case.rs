//! Concrete apply-type case, its (de)serialisation, and the observation of a
//! real libpatch execution of it.

use std::panic::{catch_unwind, AssertUnwindSafe};

use libpatch::analysis::{fn_analysis_note_noop, AnalysisSet};
use libpatch::modified_file::ModifiedFile;
use libpatch::patch::unified::parser::parse_patch;
use libpatch::patch::{FilePatchApplyReport, FilePatchKind, HunkApplyFailureReason, HunkApplyReport, PatchDirection, TextFilePatch};

use crate::text::*;

#[derive(Clone, Debug)]
pub struct Step {
    /// a patch text holding exactly one file patch, names with one leading component (-p1)
    pub patch: Vec<u8>,
    pub reverse: bool,
}

#[derive(Clone, Debug)]
pub struct ApplyCase {
    pub gen: String,
    pub file: Option<Vec<u8>>, // None: the file does not exist
    pub mode: Option<u32>,
    pub steps: Vec<Step>,
    pub fuzz: usize,
    /// expected content after all steps when known by construction (Some(None) = absent)
    pub expect: Option<Option<Vec<u8>>>,
}

impl ApplyCase {
    pub fn serialize(&self) -> String {
        let mut s = String::new();
        s.push_str("rqh-apply-case 1\n");
        s.push_str(&format!("gen {}\n", self.gen));
        match &self.file { Some(f) => s.push_str(&format!("file {}\n", hex(f))), None => s.push_str("file-absent\n") }
        if let Some(m) = self.mode { s.push_str(&format!("mode {:o}\n", m)); }
        s.push_str(&format!("fuzz {}\n", self.fuzz));
        for st in &self.steps {
            s.push_str(&format!("step {} {}\n", if st.reverse { "R" } else { "F" }, hex(&st.patch)));
        }
        match &self.expect {
            Some(Some(e)) => s.push_str(&format!("expect {}\n", hex(e))),
            Some(None) => s.push_str("expect-absent\n"),
            None => {}
        }
        s
    }

    pub fn deserialize(s: &str) -> Option<ApplyCase> {
        let mut c = ApplyCase { gen: String::new(), file: None, mode: None, steps: Vec::new(), fuzz: 0, expect: None };
        let mut lines = s.lines();
        if lines.next()? != "rqh-apply-case 1" { return None; }
        for l in lines {
            let mut it = l.splitn(2, ' ');
            let k = it.next()?;
            let v = it.next().unwrap_or("");
            match k {
                "gen" => c.gen = v.to_string(),
                "file" => c.file = Some(unhex(v)),
                "file-absent" => c.file = None,
                "mode" => c.mode = u32::from_str_radix(v, 8).ok(),
                "fuzz" => c.fuzz = v.parse().ok()?,
                "step" => {
                    let mut p = v.splitn(2, ' ');
                    let d = p.next()?;
                    let t = p.next().unwrap_or("");
                    c.steps.push(Step { patch: unhex(t), reverse: d == "R" });
                }
                "expect" => c.expect = Some(Some(unhex(v))),
                "expect-absent" => c.expect = Some(None),
                _ => {}
            }
        }
        Some(c)
    }

    /// human readable rendering for evidence samples
    pub fn describe(&self) -> String {
        let mut s = String::new();
        s.push_str(&format!("{{\"gen\":{},\"file\":{},\"fuzz\":{},\"steps\":[", jstr(self.gen.as_bytes()),
            match &self.file { Some(f) => jstr(f), None => "null".to_string() }, self.fuzz));
        for (i, st) in self.steps.iter().enumerate() {
            if i > 0 { s.push(','); }
            s.push_str(&format!("{{\"reverse\":{},\"patch\":{}}}", st.reverse, jstr(&st.patch)));
        }
        s.push_str("]}");
        s
    }
}

#[derive(Clone, Debug, PartialEq)]
pub struct Snap {
    pub lines: Vec<Line>,
    pub deleted: bool,
    pub perms: Option<u32>,
}

impl Snap {
    pub fn of(mf: &ModifiedFile) -> Snap {
        use std::os::unix::fs::PermissionsExt;
        Snap {
            lines: mf.content.iter().map(|l| l.to_vec()).collect(),
            deleted: mf.deleted,
            perms: mf.permissions.as_ref().map(|p| p.mode()),
        }
    }
    pub fn bytes(&self) -> Vec<u8> { join(&self.lines) }
}

#[derive(Clone, Debug, PartialEq)]
pub enum HunkObs {
    Applied { line: isize, offset: isize, fuzz: usize, lcd: isize },
    Failed(String),
    Skipped,
}

#[derive(Clone, Debug)]
pub struct StepObs {
    pub kind: String, // Modify / Create / Delete
    pub hunks: Vec<HunkObs>,
    pub before: Snap,
    pub after: Snap,
    pub old_name_present: bool,
    pub new_name_present: bool,
}

#[derive(Debug)]
pub enum ExecError {
    Parse(String),
    NotOneFilePatch(usize),
    ApplyPanic { step: usize, msg: String },
}

pub struct Exec {
    pub steps: Vec<StepObs>,
    /// result of undoing every step in reverse order: per step (index), Ok(snapshot after undo) or panic message
    pub rollback: Vec<(usize, Result<Snap, String>)>,
}

pub fn reason_name(r: &HunkApplyFailureReason) -> &'static str {
    match r {
        HunkApplyFailureReason::NoMatchingLines => "NoMatchingLines",
        HunkApplyFailureReason::FileDoesNotExist => "FileDoesNotExist",
        HunkApplyFailureReason::CreatingFileThatExists => "CreatingFileThatExists",
        HunkApplyFailureReason::DeletingFileThatDoesNotMatch => "DeletingFileThatDoesNotMatch",
        HunkApplyFailureReason::MisorderedHunks => "MisorderedHunks",
    }
}

pub fn obs_of(report: &FilePatchApplyReport) -> Vec<HunkObs> {
    report.hunk_reports().iter().map(|h| match h {
        HunkApplyReport::Applied { line, offset, fuzz, line_count_diff, .. } =>
            HunkObs::Applied { line: *line, offset: *offset, fuzz: *fuzz, lcd: *line_count_diff },
        HunkApplyReport::Failed(r) => HunkObs::Failed(reason_name(r).to_string()),
        HunkApplyReport::Skipped => HunkObs::Skipped,
    }).collect()
}

pub fn kind_name(k: FilePatchKind) -> &'static str {
    match k { FilePatchKind::Modify => "Modify", FilePatchKind::Create => "Create", FilePatchKind::Delete => "Delete" }
}

thread_local! {
    pub static LAST_PANIC: std::cell::RefCell<String> = std::cell::RefCell::new(String::new());
}

pub fn install_panic_hook() {
    std::panic::set_hook(Box::new(|info| {
        let loc = info.location().map(|l| format!("{}:{}", l.file(), l.line())).unwrap_or_default();
        let msg = if let Some(s) = info.payload().downcast_ref::<&str>() { s.to_string() }
                  else if let Some(s) = info.payload().downcast_ref::<String>() { s.clone() } else { "?".to_string() };
        LAST_PANIC.with(|p| *p.borrow_mut() = format!("{} @ {}", msg, loc));
    }));
}

pub fn take_panic() -> String {
    LAST_PANIC.with(|p| std::mem::replace(&mut *p.borrow_mut(), String::new()))
}

/// Class of a panic: location with the line number kept, message truncated and digits removed.
pub fn panic_class(p: &str) -> String {
    let mut parts = p.rsplitn(2, " @ ");
    let loc = parts.next().unwrap_or("");
    let msg = parts.next().unwrap_or("");
    let loc_short = loc.rsplit("src/").next().unwrap_or(loc);
    let file_only = loc_short.split(':').next().unwrap_or(loc_short);
    let m: String = msg.chars().filter(|c| !c.is_ascii_digit()).take(60).collect();
    format!("{}|{}", file_only, m)
}

/// Execute the case against the real library: apply all steps (optionally only with `fuzz_override`),
/// then, if `do_rollback`, undo them in reverse order.
pub fn execute(case: &ApplyCase, fuzz_override: Option<usize>, do_rollback: bool) -> Result<Exec, ExecError> {
    use std::os::unix::fs::PermissionsExt;
    let fuzz = fuzz_override.unwrap_or(case.fuzz);
    // parse all patches first (they must outlive the modified file)
    let mut parsed: Vec<TextFilePatch> = Vec::new();
    for st in &case.steps {
        let r = catch_unwind(AssertUnwindSafe(|| parse_patch(&st.patch, 1, false)));
        match r {
            Err(_) => return Err(ExecError::Parse(format!("panic: {}", take_panic()))),
            Ok(Err(e)) => return Err(ExecError::Parse(format!("{}", e))),
            Ok(Ok(mut p)) => {
                if p.file_patches.len() != 1 { return Err(ExecError::NotOneFilePatch(p.file_patches.len())); }
                parsed.push(p.file_patches.pop().unwrap());
            }
        }
    }
    let empty: Vec<u8> = Vec::new();
    let perms = case.mode.map(std::fs::Permissions::from_mode);
    let mut mf = match &case.file {
        Some(bytes) => ModifiedFile::new(bytes, true, perms),
        None => { let _ = &empty; ModifiedFile::new_non_existent() }
    };
    let mut steps = Vec::new();
    let mut reports: Vec<FilePatchApplyReport> = Vec::new();
    for (i, st) in case.steps.iter().enumerate() {
        let fp = &parsed[i];
        let dir = if st.reverse { PatchDirection::Revert } else { PatchDirection::Forward };
        let mut before = Snap::of(&mf);
        if i == 0 {
            if let Some(bytes) = &case.file {
                // the state before the first step is the file as given (split by this crate's own splitter), not what the
                // loader made of it: a loader that loses or alters a byte must show up as a difference
                before.lines = crate::text::split_lines(bytes);
            }
        }
        let r = catch_unwind(AssertUnwindSafe(|| fp.apply(&mut mf, dir, fuzz, &AnalysisSet::default(), &fn_analysis_note_noop)));
        let report = match r {
            Ok(r) => r,
            Err(_) => return Err(ExecError::ApplyPanic { step: i, msg: take_panic() }),
        };
        let after = Snap::of(&mf);
        steps.push(StepObs {
            kind: kind_name(fp.kind()).to_string(),
            hunks: obs_of(&report),
            before, after,
            old_name_present: fp.old_filename().is_some(),
            new_name_present: fp.new_filename().is_some(),
        });
        reports.push(report);
    }
    let mut rollback = Vec::new();
    if do_rollback {
        for i in (0..case.steps.len()).rev() {
            let fp = &parsed[i];
            let dir = if case.steps[i].reverse { PatchDirection::Revert } else { PatchDirection::Forward };
            let r = catch_unwind(AssertUnwindSafe(|| fp.rollback(&mut mf, dir, &reports[i])));
            match r {
                Ok(()) => rollback.push((i, Ok(Snap::of(&mf)))),
                Err(_) => { rollback.push((i, Err(take_panic()))); break; }
            }
        }
    }
    Ok(Exec { steps, rollback })
}
