//! Case generators.  Random generators are pure functions of (seed, index);
//! exhaustive ones decode an index in a mixed radix space.

use crate::case::*;
use crate::rng::Rng;
use crate::text::*;

fn vocab_line(i: u64) -> Line {
    const V: [&str; 14] = ["a", "b", "c", "d", "e", "{", "}", "", "  x = 1;", "return 0;", "-- x", "++ y", "@@ -1 +1 @@", "\\ No newline at end of file"];
    let mut l = V[(i as usize) % V.len()].as_bytes().to_vec();
    l.push(b'\n');
    l
}

fn random_file(r: &mut Rng, max_len: u64) -> Vec<Line> {
    let v = *r.pick(&[2u64, 2, 3, 3, 4, 6, 10, 14]);
    let n = r.below(max_len + 1);
    let mut out = Vec::new();
    let mut uniq = 0;
    for _ in 0..n {
        if r.chance(1, 12) {
            uniq += 1;
            out.push(format!("unique {}\n", uniq + r.below(3)).into_bytes());
        } else if r.chance(1, 40) {
            // arbitrary bytes, no newline inside
            let k = r.below(6) + 1;
            let mut l: Vec<u8> = (0..k).map(|_| { let b = r.below(256) as u8; if b == b'\n' { 0 } else { b } }).collect();
            l.push(b'\n');
            out.push(l);
        } else {
            out.push(vocab_line(r.below(v)));
        }
    }
    if !out.is_empty() && r.chance(1, 8) {
        let last = out.last_mut().unwrap();
        last.pop();
        if last.is_empty() { last.push(b'z'); }
    }
    out
}

fn fix_newlines(v: &mut Vec<Line>) {
    // only the last line may lack '\n'
    let n = v.len();
    for (i, l) in v.iter_mut().enumerate() {
        if i + 1 < n && l.last() != Some(&b'\n') { l.push(b'\n'); }
    }
}

fn mutate(r: &mut Rng, a: &[Line], max_edits: u64) -> Vec<Line> {
    let mut b: Vec<Line> = a.to_vec();
    let edits = 1 + r.below(max_edits);
    for _ in 0..edits {
        let pos = r.below(b.len() as u64 + 1) as usize;
        let del = std::cmp::min(r.below(4) as usize, b.len() - pos);
        let ins = r.below(4) as usize;
        let (del, ins) = if del == 0 && ins == 0 { (0, 1) } else { (del, ins) };
        let v = 2 + r.below(6);
        let new: Vec<Line> = (0..ins).map(|_| if r.chance(1, 3) { format!("new {}\n", r.below(5)).into_bytes() } else { vocab_line(r.below(v)) }).collect();
        b.splice(pos..pos + del, new);
    }
    fix_newlines(&mut b);
    if !b.is_empty() && r.chance(1, 10) {
        let last = b.last_mut().unwrap();
        if last.last() == Some(&b'\n') && last.len() > 1 { last.pop(); }
    }
    b
}

pub fn render_plain(hunks: &[HunkSpec]) -> Vec<u8> {
    let mut out = b"--- a/f\n+++ b/f\n".to_vec();
    for h in hunks { h.render(&mut out); }
    out
}

fn render_named(old: &str, new: &str, pre: &str, hunks: &[HunkSpec]) -> Vec<u8> {
    let mut out = pre.as_bytes().to_vec();
    out.extend_from_slice(format!("--- {}\n+++ {}\n", old, new).as_bytes());
    for h in hunks { h.render(&mut out); }
    out
}

/// random "realistic" drifted case: diff between two versions applied to a drifted target
pub fn gen_drift(seed: u64, index: u64) -> ApplyCase {
    let mut r = Rng::for_case(seed, "drift", index);
    let ml = *r.pick(&[6u64, 12, 30, 30]);
    let a = random_file(&mut r, ml);
    let mut a = a;
    fix_newlines(&mut a);
    let b = mutate(&mut r, &a, 4);
    let ctx = *r.pick(&[0usize, 1, 1, 2, 2, 3, 3, 3]);
    let mut hunks = diff_hunks(&a, &b, ctx);
    let reverse = r.chance(1, 4);
    let base = if reverse { b.clone() } else { a.clone() };
    let mut t = base.clone();
    // drift of the target: insert / remove lines
    if r.chance(2, 3) {
        let k = 1 + r.below(3);
        for _ in 0..k {
            let pos = r.below(t.len() as u64 + 1) as usize;
            if r.chance(1, 2) || t.is_empty() {
                let n = 1 + r.below(4);
                for _ in 0..n { t.insert(pos, if r.chance(1, 2) { vocab_line(r.below(3)) } else { format!("drift {}\n", r.below(4)).into_bytes() }); }
            } else {
                let n = std::cmp::min(1 + r.below(3) as usize, t.len() - pos);
                t.drain(pos..pos + n);
            }
        }
    }
    // corrupt context lines at hunk borders (needs fuzz)
    if r.chance(1, 2) && !t.is_empty() {
        let k = 1 + r.below(3);
        for _ in 0..k {
            let pos = r.below(t.len() as u64) as usize;
            t[pos] = b"corrupted\n".to_vec();
        }
    }
    // duplicate a region (ambiguity)
    if r.chance(1, 4) && !t.is_empty() {
        let s = r.below(t.len() as u64) as usize;
        let e = std::cmp::min(t.len(), s + 1 + r.below(6) as usize);
        let region: Vec<Line> = t[s..e].to_vec();
        let pos = r.below(t.len() as u64 + 1) as usize;
        for (k, l) in region.into_iter().enumerate() { t.insert(pos + k, l); }
    }
    fix_newlines(&mut t);
    // perturb the patch
    if !hunks.is_empty() && r.chance(1, 3) {
        let hi = r.below(hunks.len() as u64) as usize;
        let h = &mut hunks[hi];
        match r.below(6) {
            0 => { let d = r.range(1, 6) as u64; h.old_start += d; h.new_start += d; }
            1 => { let d = r.range(1, 6) as u64; h.old_start = h.old_start.saturating_sub(d); h.new_start = h.new_start.saturating_sub(d); }
            2 => { h.old_start = t.len() as u64 + r.below(20); h.new_start = h.old_start; }
            3 => { h.old_start = 0; h.new_start = 0; }
            4 => { match r.below(3) { 0 => { h.old_start = 1; h.new_start = 1; } 1 => { h.old_start = 1; } _ => { h.new_start = 1; } } }
            _ => { h.old_start = 1000 + r.below(100000); h.new_start = h.old_start; }
        }
    }
    // asymmetric context: drop leading or trailing context lines
    if !hunks.is_empty() && r.chance(1, 4) {
        let hi = r.below(hunks.len() as u64) as usize;
        let h = &mut hunks[hi];
        if r.chance(1, 2) {
            let k = std::cmp::min(h.prefix(), 1 + r.below(3) as usize);
            if k > 0 && k < h.lines.len() { h.lines.drain(0..k); h.old_start += k as u64; h.new_start += k as u64; }
        } else {
            let k = std::cmp::min(h.suffix(), 1 + r.below(3) as usize);
            let n = h.lines.len();
            if k > 0 && k < n { h.lines.truncate(n - k); }
        }
    }
    // misorder
    if hunks.len() >= 2 && r.chance(1, 12) {
        let i = r.below(hunks.len() as u64 - 1) as usize;
        hunks.swap(i, i + 1);
    }
    // drop a hunk (later hunks then carry a stale offset)
    if hunks.len() >= 2 && r.chance(1, 10) {
        let i = r.below(hunks.len() as u64) as usize;
        hunks.remove(i);
    }
    let fuzz = *r.pick(&[0usize, 0, 1, 2, 2, 3]);
    ApplyCase {
        gen: "drift".to_string(),
        file: Some(join(&t)),
        mode: None,
        steps: vec![Step { patch: render_plain(&hunks), reverse }],
        fuzz,
        expect: None,
    }
}

/// random pair (A,B), exact diff, applied to the exact source: the C01 generator (library layer)
pub fn gen_pair(seed: u64, index: u64) -> ApplyCase {
    let mut r = Rng::for_case(seed, "pair", index);
    let a_absent = r.chance(1, 12);
    let ml = *r.pick(&[3u64, 8, 20, 60]);
    let mut a = if a_absent || r.chance(1, 12) { Vec::new() } else { random_file(&mut r, ml) };
    fix_newlines(&mut a);
    let b_absent = !a_absent && !a.is_empty() && r.chance(1, 12);
    let b = if b_absent || (!a.is_empty() && r.chance(1, 14)) { Vec::new() } else {
        let mut b = mutate(&mut r, &a, 5);
        if b == a { b.push(b"extra\n".to_vec()); fix_newlines(&mut b); }
        b
    };
    let ctx = r.below(4) as usize;
    pair_case("pair", &a, a_absent, &b, b_absent, ctx, r.chance(1, 2), r.below(3))
}

fn pair_case(gen: &str, a: &[Line], a_absent: bool, b: &[Line], b_absent: bool, ctx: usize, reverse: bool, dialect: u64) -> ApplyCase {
    let hunks = diff_hunks(a, b, ctx);
    let old = if a_absent { "/dev/null" } else { "a/f" };
    let new = if b_absent { "/dev/null" } else { "b/f" };
    let pre = match dialect {
        1 => "diff --git a/f b/f\nindex 1111111..2222222 100644\n".to_string(),
        2 => "Index: f\n===================================================================\n".to_string(),
        _ => String::new(),
    };
    let patch = render_named(old, new, &pre, &hunks);
    let (file, expect) = if reverse {
        (if b_absent { None } else { Some(join(b)) }, if a_absent { None } else { Some(join(a)) })
    } else {
        (if a_absent { None } else { Some(join(a)) }, if b_absent { None } else { Some(join(b)) })
    };
    ApplyCase { gen: gen.to_string(), file, mode: None, steps: vec![Step { patch, reverse }], fuzz: 0, expect: Some(expect) }
}

/// all versions over {a,b,c} with at most `maxlen` lines: absent, and each list with / without final newline
fn small_versions(maxlen: usize) -> Vec<(Vec<Line>, bool)> {
    let mut out: Vec<(Vec<Line>, bool)> = vec![(Vec::new(), true), (Vec::new(), false)];
    let letters = [b'a', b'b', b'c'];
    let mut lists: Vec<Vec<u8>> = vec![vec![]];
    for _ in 0..maxlen {
        let mut next = Vec::new();
        for l in &lists {
            if l.len() as isize == -1 { continue; }
            for &c in &letters { let mut n = l.clone(); n.push(c); next.push(n); }
        }
        for l in &next {
            let with_nl: Vec<Line> = l.iter().map(|&c| vec![c, b'\n']).collect();
            let mut no_nl = with_nl.clone();
            no_nl.last_mut().unwrap().pop();
            out.push((with_nl, false));
            out.push((no_nl, false));
        }
        lists = next;
    }
    out
}

pub struct PairSpace { versions: Vec<(Vec<Line>, bool)> }

impl PairSpace {
    pub fn new(maxlen: usize) -> PairSpace { PairSpace { versions: small_versions(maxlen) } }
    pub fn total(&self) -> u64 { (self.versions.len() * self.versions.len() * 4 * 2) as u64 }
    /// None when the pair has no difference to express (same content, or absent<->empty)
    pub fn get(&self, index: u64) -> Option<ApplyCase> {
        let n = self.versions.len() as u64;
        let reverse = index % 2 == 1;
        let ctx = ((index / 2) % 4) as usize;
        let bi = ((index / 8) % n) as usize;
        let ai = ((index / 8 / n) % n) as usize;
        let (a, a_abs) = &self.versions[ai];
        let (b, b_abs) = &self.versions[bi];
        if a == b { return None; }
        Some(pair_case("pair-exhaustive", a, *a_abs, b, *b_abs, ctx, reverse, 0))
    }
}

/// Exhaustive single-hunk placement space: file over {a,b} of length <= 5, hunk with p,s <= 2,
/// removed core <= 2 lines over {a,b}, added core = k lines "N", stated line 0..7, fuzz limit 0..2.
pub struct PlaceSpace { files: Vec<Vec<u8>>, shapes: Vec<(usize, usize, usize, usize)> }

impl PlaceSpace {
    pub fn new(maxfile: usize) -> PlaceSpace {
        let mut files: Vec<Vec<u8>> = vec![vec![]];
        let mut cur: Vec<Vec<u8>> = vec![vec![]];
        for _ in 0..maxfile {
            let mut next = Vec::new();
            for f in &cur { for &c in &[b'a', b'b'] { let mut n = f.clone(); n.push(c); next.push(n); } }
            files.extend(next.iter().cloned());
            cur = next;
        }
        let mut shapes = Vec::new();
        for p in 0..=2 { for s in 0..=2 { for co in 0..=2 { for cn in 0..=1 {
            if co == 0 && cn == 0 { continue; }
            shapes.push((p, co, cn, s));
        } } } }
        PlaceSpace { files, shapes }
    }
    fn contents(len: usize) -> u64 { 1u64 << len }
    pub fn total(&self) -> u64 {
        let mut t = 0u64;
        for &(p, co, _cn, s) in &self.shapes { t += Self::contents(p + co + s); }
        t * self.files.len() as u64 * 8 * 3 * 2 * 3
    }
    pub fn get(&self, mut index: u64) -> ApplyCase {
        let reverse = index % 2 == 1; index /= 2;
        let other_mode = index % 3; index /= 3;
        let fuzz = (index % 3) as usize; index /= 3;
        let stated = index % 8; index /= 8;
        let fi = (index % self.files.len() as u64) as usize; index /= self.files.len() as u64;
        // remaining: (shape, content)
        let mut shape = self.shapes[0];
        let mut content = 0u64;
        for &sh in &self.shapes {
            let c = Self::contents(sh.0 + sh.1 + sh.3);
            if index < c { shape = sh; content = index; break; }
            index -= c;
        }
        let (p, co, cn, s) = shape;
        let letter = |k: usize| -> Line { vec![if (content >> k) & 1 == 1 { b'b' } else { b'a' }, b'\n'] };
        let mut lines: Vec<(u8, Line)> = Vec::new();
        let mut k = 0;
        // the side that is matched against the file is '-' when applying forward and '+' when reverting
        let (rem_tag, add_tag) = if reverse { (b'+', b'-') } else { (b'-', b'+') };
        for _ in 0..p { lines.push((b' ', letter(k))); k += 1; }
        let mut rem = Vec::new();
        for _ in 0..co { rem.push((rem_tag, letter(k))); k += 1; }
        let mut add = Vec::new();
        for _ in 0..cn { add.push((add_tag, b"N\n".to_vec())); }
        if reverse { lines.extend(add); lines.extend(rem); } else { lines.extend(rem); lines.extend(add); }
        for _ in 0..s { lines.push((b' ', letter(k))); k += 1; }
        // the line number of the side that is not matched: same, 1, or elsewhere
        let other = match other_mode { 0 => stated, 1 => 1, _ => stated + 3 };
        let h = if reverse { HunkSpec { old_start: other, new_start: stated, lines } } else { HunkSpec { old_start: stated, new_start: other, lines } };
        let file: Vec<Line> = self.files[fi].iter().map(|&c| vec![c, b'\n']).collect();
        ApplyCase { gen: "place-exhaustive".to_string(), file: Some(join(&file)), mode: None,
            steps: vec![Step { patch: render_plain(&[h]), reverse }], fuzz, expect: None }
    }
}

/// two-hunk cases on small repetitive files: neighbouring / overlapping context, different offsets
pub fn gen_two(seed: u64, index: u64) -> ApplyCase {
    let mut r = Rng::for_case(seed, "two", index);
    let n = 2 + r.below(8) as usize;
    let v = 2 + r.below(2);
    let file: Vec<Line> = (0..n).map(|_| vocab_line(r.below(v))).collect();
    let nh = 2 + r.below(2) as usize;
    let mut hunks = Vec::new();
    for _ in 0..nh {
        let p = r.below(3) as usize;
        let s = r.below(3) as usize;
        let co = r.below(3) as usize;
        let cn = if co == 0 { 1 + r.below(2) as usize } else { r.below(3) as usize };
        let start = r.below(n as u64 + 1) as usize;
        let mut lines = Vec::new();
        let mut pos = start;
        let take = |r: &mut Rng, pos: &mut usize| -> Line {
            let l = if *pos < file.len() && !r.chance(1, 8) { file[*pos].clone() } else { vocab_line(r.below(v)) };
            *pos += 1;
            l
        };
        for _ in 0..p { lines.push((b' ', take(&mut r, &mut pos))); }
        for _ in 0..co { lines.push((b'-', take(&mut r, &mut pos))); }
        for _ in 0..cn { lines.push((b'+', if r.chance(1, 2) { b"N\n".to_vec() } else { vocab_line(r.below(v)) })); }
        for _ in 0..s { lines.push((b' ', take(&mut r, &mut pos))); }
        let stated = (start as i64 + 1 + r.range(-2, 2)).max(0) as u64;
        hunks.push(HunkSpec { old_start: stated, new_start: stated, lines });
    }
    if r.chance(3, 4) { hunks.sort_by_key(|h| h.old_start); }
    // a quarter of the cases are written the other way round and applied with -R: the file is then matched
    // against the '+' side of the text
    let reverse = r.chance(1, 4);
    if reverse {
        for h in hunks.iter_mut() {
            for l in h.lines.iter_mut() {
                l.0 = match l.0 { b'-' => b'+', b'+' => b'-', t => t };
            }
            // keep removals before additions inside each change block, as diff prints them
            let mut k = 0;
            while k < h.lines.len() {
                if h.lines[k].0 != b' ' {
                    let start = k;
                    while k < h.lines.len() && h.lines[k].0 != b' ' { k += 1; }
                    h.lines[start..k].sort_by_key(|l| if l.0 == b'-' { 0 } else { 1 });
                } else { k += 1; }
            }
            std::mem::swap(&mut h.old_start, &mut h.new_start);
        }
    }
    ApplyCase { gen: "two".to_string(), file: Some(join(&file)), mode: None,
        steps: vec![Step { patch: render_plain(&hunks), reverse }], fuzz: *r.pick(&[0usize, 0, 1, 2]), expect: None }
}

/// stack of patches from a version history (C04): modifications with drift, creation, deletion, mode changes
pub fn gen_stack(seed: u64, index: u64) -> ApplyCase {
    let mut r = Rng::for_case(seed, "stack", index);
    let start_absent = r.chance(1, 6);
    let mut cur: Vec<Line> = if start_absent { Vec::new() } else { let mut f = random_file(&mut r, 14); fix_newlines(&mut f); f };
    let mut cur_absent = start_absent;
    let first = cur.clone();
    let n = 1 + r.below(4) as usize;
    let mut steps = Vec::new();
    let mode = if start_absent { None } else if r.chance(1, 2) { Some(0o100644) } else { None };
    for _ in 0..n {
        let ctx = *r.pick(&[0usize, 1, 2, 3, 3]);
        let kind = r.below(10);
        let (next, next_absent): (Vec<Line>, bool) = if cur_absent {
            let mut f = random_file(&mut r, 8); fix_newlines(&mut f);
            if f.is_empty() { f.push(b"created\n".to_vec()); }
            (f, false)
        } else if kind == 0 && !cur.is_empty() {
            (Vec::new(), true)
        } else {
            let mut b = mutate(&mut r, &cur, 3);
            if b == cur { b.push(b"more\n".to_vec()); fix_newlines(&mut b); }
            (b, false)
        };
        let mut hunks = diff_hunks(&cur, &next, ctx);
        // optional drift of the patch so that some hunks fail or need fuzz
        if !hunks.is_empty() && r.chance(1, 4) {
            let hi = r.below(hunks.len() as u64) as usize;
            let h = &mut hunks[hi];
            let li = r.below(h.lines.len() as u64) as usize;
            if h.lines[li].0 != b'+' { h.lines[li].1 = b"stale context\n".to_vec(); }
        }
        let same_name_style = r.chance(1, 2);
        let old = if cur_absent && !same_name_style { "/dev/null" } else { "a/f" };
        let new = if next_absent && !same_name_style { "/dev/null" } else { "b/f" };
        let pre = if r.chance(1, 3) && !cur_absent && !next_absent {
            let (o, n2) = if r.chance(1, 2) { ("100644", "100755") } else { ("100755", "100644") };
            format!("diff --git a/f b/f\nold mode {}\nnew mode {}\n", o, n2)
        } else { String::new() };
        let reverse = false;
        steps.push(Step { patch: render_named(old, new, &pre, &hunks), reverse });
        cur = next;
        cur_absent = next_absent;
    }
    ApplyCase { gen: "stack".to_string(), file: if start_absent { None } else { Some(join(&first)) }, mode, steps,
        fuzz: *r.pick(&[0usize, 0, 1, 2, 3]), expect: None }
}
