//! C11 (parser totality, bounded allocation) and C12 (write∘parse stability):
//! generators and oracles over raw byte inputs.

use std::os::unix::ffi::OsStrExt;
use std::os::unix::fs::PermissionsExt;
use std::panic::{catch_unwind, AssertUnwindSafe};

use libpatch::analysis::{fn_analysis_note_noop, AnalysisSet};
use libpatch::modified_file::ModifiedFile;
use libpatch::patch::unified::parser::{parse_patch, ParseError};
use libpatch::patch::unified::writer::UnifiedPatchWriter;
use libpatch::patch::{FilePatchKind, PatchDirection, TextPatch};

use crate::alloc;
use crate::case::{panic_class, take_panic};
use crate::gen;
use crate::oracle::{Seen, Violation};
use crate::rng::Rng;
use crate::text::*;

pub const VOCAB: [&[u8]; 28] = [
    b"--- a/f\n",
    b"+++ b/f\n",
    b"--- /dev/null\n",
    b"+++ /dev/null\n",
    b"--- a/f\t2020-01-01 00:00:00.000000000 +0000\n",
    b"+++ \"b/g h\"\n",
    b"diff --git a/f b/f\n",
    b"diff --git a/f b/g\n",
    b"index 1234567..89abcde 100644\n",
    b"old mode 100644\n",
    b"new mode 100755\n",
    b"new file mode 100644\n",
    b"deleted file mode 100644\n",
    b"new mode 1006\n",
    b"rename from f\n",
    b"rename to g\n",
    b"copy from f\n",
    b"GIT binary patch\n",
    b"@@ -1 +1 @@\n",
    b"@@ -1,2 +1,2 @@ fn\n",
    b"@@ -0,0 +1 @@\n",
    b"@@ -1 +0,0 @@\n",
    b" ctx\n",
    b"-old\n",
    b"+new\n",
    b"\\ No newline at end of file\n",
    b"\n",
    b"garbage line\n",
];

pub struct VocabSpace { pub maxlen: usize }

impl VocabSpace {
    pub fn total(&self) -> u64 {
        let v = VOCAB.len() as u64;
        let mut t = 0;
        let mut p = 1;
        for _ in 0..=self.maxlen { t += p * 2; p *= v; }
        t
    }
    pub fn get(&self, mut index: u64) -> Vec<u8> {
        let strip_final_nl = index % 2 == 1; index /= 2;
        let v = VOCAB.len() as u64;
        let mut len = 0;
        let mut p = 1;
        while index >= p { index -= p; p *= v; len += 1; }
        let mut out = Vec::new();
        for _ in 0..len { out.extend_from_slice(VOCAB[(index % v) as usize]); index /= v; }
        if strip_final_nl && out.last() == Some(&b'\n') { out.pop(); }
        out
    }
}

const NUMS: [&str; 14] = ["0", "1", "2", "7", "2147483648", "4294967296", "1099511627776", "9223372036854775807", "9223372036854775808",
    "18446744073709551615", "18446744073709551616", "1000000000000000000000000000000", "00000000000000000000001", "4611686018427387904"];

/// numeric extremes in every numeric position of a small set of templates
pub fn gen_numeric(index: u64) -> Vec<u8> {
    let n = NUMS.len() as u64;
    let templates: [&str; 6] = [
        "--- a/f\n+++ b/f\n@@ -{0},{1} +{2},{3} @@\n-a\n+b\n",
        "--- a/f\n+++ b/f\n@@ -{0} +{2} @@\n-a\n+b\n",
        "--- a/f\n+++ b/f\n@@ -{0},{1} +{2},{3} @@\n a\n-b\n+c\n a\n@@ -{3},{1} +{0},{2} @@\n-a\n+b\n",
        "diff --git a/f b/f\nindex {0}..{1} {2}\n--- a/f\n+++ b/f\n@@ -1,{3} +1 @@\n-a\n+b\n",
        "--- a/f\n+++ /dev/null\n@@ -{0},{1} +{2},{3} @@\n-a\n-b\n",
        "--- /dev/null\n+++ b/f\n@@ -{0},{1} +{2},{3} @@\n+a\n+b\n",
    ];
    let mut i = index;
    let t = templates[(i % 6) as usize]; i /= 6;
    let mut s = t.to_string();
    for k in 0..4 {
        let v = NUMS[(i % n) as usize]; i /= n;
        s = s.replace(&format!("{{{}}}", k), v);
    }
    s.into_bytes()
}
pub fn numeric_total() -> u64 { 6 * (NUMS.len() as u64).pow(4) }

/// corpus: repository test data plus generated patches
pub fn load_corpus(repo: &str, seed: u64) -> Vec<Vec<u8>> {
    let mut out = Vec::new();
    fn walk(dir: &std::path::Path, out: &mut Vec<Vec<u8>>) {
        if let Ok(rd) = std::fs::read_dir(dir) {
            let mut entries: Vec<_> = rd.filter_map(|e| e.ok()).map(|e| e.path()).collect();
            entries.sort();
            for p in entries {
                if p.is_dir() { walk(&p, out); }
                else if p.extension().map(|e| e == "patch" || e == "diff").unwrap_or(false) {
                    if let Ok(b) = std::fs::read(&p) { if b.len() < 200_000 { out.push(b); } }
                }
            }
        }
    }
    walk(&std::path::Path::new(repo).join("testdata"), &mut out);
    for i in 0..40 {
        out.push(gen::gen_drift(seed, i).steps[0].patch.clone());
        out.push(gen::gen_pair(seed, i).steps[0].patch.clone());
        for st in gen::gen_stack(seed, i).steps { out.push(st.patch); }
        out.push(gen_valid_patch(seed, i));
    }
    out
}

pub fn gen_mutant(corpus: &[Vec<u8>], seed: u64, index: u64) -> Vec<u8> {
    let mut r = Rng::for_case(seed, "mutant", index);
    let base = &corpus[r.below(corpus.len() as u64) as usize];
    let mut b = base.clone();
    match r.below(8) {
        0 => { let k = r.below(b.len() as u64 + 1) as usize; b.truncate(k); }
        1 | 2 => {
            let n = 1 + r.below(4);
            for _ in 0..n {
                if b.is_empty() { break; }
                let p = r.below(b.len() as u64) as usize;
                b[p] = match r.below(4) { 0 => r.below(256) as u8, 1 => *r.pick(b"-+ @\\\n\t\"0189,"), 2 => b[p] ^ (1 << r.below(8)), _ => b'\n' };
            }
        }
        3 => { // delete a line
            let lines = split_lines(&b);
            if !lines.is_empty() { let k = r.below(lines.len() as u64) as usize; let mut l = lines; l.remove(k); b = join(&l); }
        }
        4 => { // duplicate a line
            let mut lines = split_lines(&b);
            if !lines.is_empty() { let k = r.below(lines.len() as u64) as usize; let l = lines[k].clone(); lines.insert(k, l); b = join(&lines); }
        }
        5 => { // insert a vocabulary line
            let mut lines = split_lines(&b);
            let k = r.below(lines.len() as u64 + 1) as usize;
            lines.insert(k, VOCAB[r.below(VOCAB.len() as u64) as usize].to_vec());
            b = join(&lines);
        }
        6 => { // replace a number by an extreme
            let s = String::from_utf8_lossy(&b).to_string();
            let digits: Vec<usize> = s.char_indices().filter(|(_, c)| c.is_ascii_digit()).map(|(i, _)| i).collect();
            if !digits.is_empty() {
                let at = digits[r.below(digits.len() as u64) as usize];
                let mut e = at; while e < s.len() && s.as_bytes()[e].is_ascii_digit() { e += 1; }
                let mut st = at; while st > 0 && s.as_bytes()[st - 1].is_ascii_digit() { st -= 1; }
                b = [s[..st].as_bytes(), NUMS[r.below(NUMS.len() as u64) as usize].as_bytes(), s[e..].as_bytes()].concat();
            }
        }
        _ => { // swap two lines
            let mut lines = split_lines(&b);
            if lines.len() >= 2 { let i = r.below(lines.len() as u64) as usize; let j = r.below(lines.len() as u64) as usize; lines.swap(i, j); b = join(&lines); }
        }
    }
    b
}

pub fn gen_random_bytes(seed: u64, index: u64) -> Vec<u8> {
    let mut r = Rng::for_case(seed, "bytes", index);
    let n = r.below(200);
    (0..n).map(|_| if r.chance(1, 3) { *r.pick(b"-+ @\n\n\\\"0123456789,") } else { r.below(256) as u8 }).collect()
}

fn rand_name(r: &mut Rng) -> Vec<u8> {
    let simple: [&[u8]; 6] = [b"f", b"dir/f.c", b"a/b/c/d.txt", b"file.with.dots", b"x", b"Makefile"];
    match r.below(17) {
        14 => b"vt\x0bin.txt".to_vec(),
        15 => b"ff\x0cand\rcr".to_vec(),
        16 => b"del\x7f\x01ctl".to_vec(),
        10 => b"\"x\".txt".to_vec(),
        11 => b"mid\"quote".to_vec(),
        12 => b"\"".to_vec(),
        13 => b"\"a\"\"b\"".to_vec(),
        0 => b"name with space".to_vec(),
        1 => b"tab\there".to_vec(),
        2 => b"quote\"and\\backslash".to_vec(),
        3 => vec![b'h', b'i', 0xc3, 0xa9, b'g', b'h'],
        4 => vec![b'r', b'a', b'w', 0xff, 0xfe],
        _ => simple[r.below(6) as usize].to_vec(),
    }
}

fn quote_name(prefix: &[u8], n: &[u8]) -> Vec<u8> {
    let needs = n.iter().any(|&c| c <= b' ' || c == b'"' || c == b'\\' || c >= 0x7f);
    let mut full = prefix.to_vec();
    full.extend_from_slice(n);
    if !needs { return full; }
    let mut out = vec![b'"'];
    for &c in &full {
        match c {
            b'"' => out.extend_from_slice(b"\\\""),
            b'\\' => out.extend_from_slice(b"\\\\"),
            b'\t' => out.extend_from_slice(b"\\t"),
            b'\n' => out.extend_from_slice(b"\\n"),
            0x20..=0x7e => out.push(c),
            _ => out.extend_from_slice(format!("\\{:03o}", c).as_bytes()),
        }
    }
    out.push(b'"');
    out
}

fn rand_hunk(r: &mut Rng, allow_empty_sides: bool) -> HunkSpec {
    let p = r.below(4) as usize;
    let s = r.below(4) as usize;
    let mut lines: Vec<(u8, Line)> = Vec::new();
    let txt = |r: &mut Rng| -> Line {
        match r.below(8) { 0 => b"\n".to_vec(), 1 => b"\tindented\n".to_vec(), 2 => b"-- looks like header\n".to_vec(), 3 => b"++ x\n".to_vec(),
            _ => format!("line {}\n", r.below(6)).into_bytes() }
    };
    let (p, s) = if allow_empty_sides && r.chance(1, 4) { (0, 0) } else { (p, s) };
    for _ in 0..p { lines.push((b' ', txt(r))); }
    let blocks = 1 + r.below(2);
    for bi in 0..blocks {
        let mut d = r.below(3); let mut a = r.below(3);
        if d == 0 && a == 0 { if r.chance(1, 2) { d = 1 } else { a = 1 } }
        if r.chance(1, 50) {
            // a long block replaced by another long block without a line in common (a re-indented function)
            let (bd, ba) = (40 + r.below(160), 40 + r.below(160));
            for k in 0..bd { lines.push((b'-', format!("    statement_{}();\n", k).into_bytes())); }
            for k in 0..ba { lines.push((b'+', format!("        statement_{}();\n", k).into_bytes())); }
        }
        for _ in 0..d { lines.push((b'-', txt(r))); }
        for _ in 0..a { lines.push((b'+', txt(r))); }
        if bi + 1 < blocks { lines.push((b' ', txt(r))); }
    }
    for _ in 0..s { lines.push((b' ', txt(r))); }
    // missing final newline on the last line of a side
    if r.chance(1, 5) {
        let which = if r.chance(1, 2) { b'-' } else { b'+' };
        if let Some(k) = lines.iter().rposition(|(t, _)| *t == which || *t == b' ') {
            if k + 1 == lines.len() || lines[k].0 != b' ' {
                if lines[k].1.len() > 1 { lines[k].1.pop(); }
            }
        }
    }
    // ... or on a line in the middle of a side (no diff tool writes that, the parser takes the marker after any line)
    if lines.len() >= 3 && r.chance(1, 25) {
        let k = r.below(lines.len() as u64 - 1) as usize;
        if lines[k].1.len() > 1 && lines[k].1.last() == Some(&b'\n') { lines[k].1.pop(); }
    }
    let start = r.below(50);
    let mut h = HunkSpec { old_start: start, new_start: start + r.below(3), lines };
    if h.old_count() > 0 && h.old_start == 0 { h.old_start = 1; }
    if h.new_count() > 0 && h.new_start == 0 { h.new_start = 1; }
    h
}

/// grammar-driven valid patch over all dialects and metadata combinations
pub fn gen_valid_patch(seed: u64, index: u64) -> Vec<u8> {
    let mut r = Rng::for_case(seed, "valid", index);
    let mut out = Vec::new();
    if r.chance(1, 3) { out.extend_from_slice(b"Subject: something\n\nfree text\n---\n stat | 2 +-\n\n"); }
    let nfiles = 1 + r.below(3);
    let git_all = r.chance(1, 2);
    for fi in 0..nfiles {
        if fi > 0 && r.chance(1, 4) { out.extend_from_slice(b"some garbage between\n"); }
        let name = rand_name(&mut r);
        let name2 = if r.chance(1, 5) { rand_name(&mut r) } else { name.clone() };
        let kind = r.below(8); // 0 create, 1 delete, else modify
        let git = git_all;
        let rename = git && name2 != name && r.chance(1, 2);
        let mut hunks: Vec<HunkSpec> = Vec::new();
        match kind {
            0 => { let n = 1 + r.below(4); let lines = (0..n).map(|i| (b'+', format!("new {}\n", i).into_bytes())).collect(); hunks.push(HunkSpec { old_start: 0, new_start: 1, lines }); }
            1 => { let n = 1 + r.below(4); let lines = (0..n).map(|i| (b'-', format!("old {}\n", i).into_bytes())).collect(); hunks.push(HunkSpec { old_start: 1, new_start: 0, lines }); }
            _ => { let n = if rename && r.chance(1, 2) { 0 } else { 1 + r.below(3) }; for _ in 0..n { hunks.push(rand_hunk(&mut r, true)); } }
        }
        if git {
            out.extend_from_slice(b"diff --git ");
            out.extend_from_slice(&quote_name(b"a/", &name)); out.push(b' ');
            out.extend_from_slice(&quote_name(b"b/", &name2)); out.push(b'\n');
            if kind == 0 && r.chance(2, 3) { out.extend_from_slice(b"new file mode 100644\n"); }
            if kind == 1 && r.chance(2, 3) { out.extend_from_slice(b"deleted file mode 100755\n"); }
            if kind > 1 && r.chance(1, 3) { out.extend_from_slice(b"old mode 100644\nnew mode 100755\n"); }
            if rename { out.extend_from_slice(b"rename from "); out.extend_from_slice(&name); out.extend_from_slice(b"\nrename to "); out.extend_from_slice(&name2); out.push(b'\n'); }
            if r.chance(1, 2) { out.extend_from_slice(b"index 0123abc..def4567"); if r.chance(1, 2) { out.extend_from_slice(b" 100644"); } out.push(b'\n'); }
        } else if r.chance(1, 4) {
            out.extend_from_slice(b"Index: "); out.extend_from_slice(&name); out.extend_from_slice(b"\n===================================================================\n");
        }
        if !hunks.is_empty() {
            let devnull_style = r.chance(2, 3);
            out.extend_from_slice(b"--- ");
            if kind == 0 && devnull_style { out.extend_from_slice(b"/dev/null"); } else { out.extend_from_slice(&quote_name(b"a/", &name)); }
            if r.chance(1, 4) { out.extend_from_slice(b"\t2020-01-01 00:00:00.000000000 +0000"); }
            out.extend_from_slice(b"\n+++ ");
            if kind == 1 && devnull_style { out.extend_from_slice(b"/dev/null"); } else { out.extend_from_slice(&quote_name(b"b/", &name2)); }
            out.push(b'\n');
            for h in &hunks { h.render(&mut out); }
        } else if !git {
            // plain style needs hunks: give it one
            out.extend_from_slice(b"--- "); out.extend_from_slice(&quote_name(b"a/", &name));
            out.extend_from_slice(b"\n+++ "); out.extend_from_slice(&quote_name(b"b/", &name2)); out.push(b'\n');
            rand_hunk(&mut r, false).render(&mut out);
        }
    }
    out
}

fn variant_name(e: &ParseError) -> String {
    let d = format!("{:?}", e);
    d.split(|c| c == '(' || c == ' ').next().unwrap_or("?").to_string()
}

/// C11 oracle on one input.  Returns (violations, outcome tag)
pub fn check_c11(input: &[u8], strip: usize, seen: &mut Seen) -> (Vec<Violation>, String) {
    let mut out = Vec::new();
    let recognised = input.windows(3).any(|w| w == b"---" || w == b"+++" || w == b"@@ " || w == b"dif");
    if recognised { seen.nontrivial = true; }
    let budget = 128 * input.len() + 64 * 1024;
    let live0 = alloc::begin();
    let r = catch_unwind(AssertUnwindSafe(|| parse_patch(input, strip, false)));
    let (peak, maxreq) = alloc::end(live0);
    let outcome;
    match r {
        Err(_) => {
            let p = take_panic();
            out.push(Violation::new("C11", "parse-panic", format!("parse_patch panicked: {}", p)).with("panic", &panic_class(&p)));
            return (out, "panic".to_string());
        }
        Ok(Err(e)) => {
            outcome = match e.downcast_ref::<ParseError>() { Some(pe) => format!("Err:{}", variant_name(pe)), None => "Err:other".to_string() };
        }
        Ok(Ok(patch)) => {
            outcome = format!("Ok:{}", std::cmp::min(patch.file_patches.len(), 3));
            // the tool then applies it: exercise apply / rollback / write on small files
            let r2 = catch_unwind(AssertUnwindSafe(|| exercise(&patch)));
            if r2.is_err() {
                let p = take_panic();
                out.push(Violation::new("C11", "apply-panic", format!("applying / writing a parsed patch panicked: {}", p)).with("panic", &panic_class(&p)));
            }
        }
    }
    if maxreq > budget || peak > budget {
        out.push(Violation::new("C11", "allocation-out-of-proportion", format!("input {} bytes: peak growth {} bytes, largest request {} bytes, budget {}", input.len(), peak, maxreq, budget)));
    }
    (out, outcome)
}

fn exercise(patch: &TextPatch) {
    let files: [&[u8]; 3] = [b"", b"a\nb\nc\n", b"ctx\nold\nctx\nold\nnew\n"];
    // the optional analysis the tool can be asked to run while applying (-A multiapply)
    let mut analyses = AnalysisSet::new();
    analyses.add_default::<libpatch::analysis::MultiApplyAnalysis>();
    for fp in &patch.file_patches {
        for f in &files {
            for &dir in &[PatchDirection::Forward, PatchDirection::Revert] {
                let mut mf = ModifiedFile::new(f, true, None);
                let _ = fp.apply(&mut mf, dir, 2, &analyses, &fn_analysis_note_noop);
            }
        }
    }
    for fp in &patch.file_patches {
        for f in &files {
            for &dir in &[PatchDirection::Forward, PatchDirection::Revert] {
                let mut mf = ModifiedFile::new(f, true, None);
                let rep = fp.apply(&mut mf, dir, 2, &AnalysisSet::default(), &fn_analysis_note_noop);
                fp.rollback(&mut mf, dir, &rep);
            }
        }
        let mut mf = ModifiedFile::new_non_existent();
        let rep = fp.apply(&mut mf, PatchDirection::Forward, 0, &AnalysisSet::default(), &fn_analysis_note_noop);
        fp.rollback(&mut mf, PatchDirection::Forward, &rep);
    }
    let mut w = Vec::new();
    let _ = patch.write_to(&mut w);
}

#[derive(PartialEq, Debug, Clone)]
struct FpView {
    kind: &'static str,
    old: Option<Vec<u8>>,
    new: Option<Vec<u8>>,
    rename: bool,
    old_mode: Option<u32>,
    new_mode: Option<u32>,
    old_hash: Option<Vec<u8>>,
    new_hash: Option<Vec<u8>>,
    hunks: Vec<(Vec<Vec<u8>>, Vec<Vec<u8>>, isize, isize)>,
}

fn view(p: &TextPatch) -> Vec<FpView> {
    p.file_patches.iter().map(|fp| FpView {
        kind: match fp.kind() { FilePatchKind::Modify => "Modify", FilePatchKind::Create => "Create", FilePatchKind::Delete => "Delete" },
        old: fp.old_filename().map(|n| n.as_os_str().as_bytes().to_vec()),
        new: fp.new_filename().map(|n| n.as_os_str().as_bytes().to_vec()),
        rename: fp.is_rename(),
        old_mode: fp.old_permissions().map(|m| m.mode()),
        new_mode: fp.new_permissions().map(|m| m.mode()),
        old_hash: fp.old_hash().map(|h| h.to_vec()),
        new_hash: fp.new_hash().map(|h| h.to_vec()),
        hunks: fp.hunks().iter().map(|h| (
            h.remove.content.iter().map(|l| l.to_vec()).collect(),
            h.add.content.iter().map(|l| l.to_vec()).collect(),
            h.remove.target_line, h.add.target_line)).collect(),
    }).collect()
}

fn name_special(n: &Option<Vec<u8>>) -> bool {
    n.as_ref().map(|n| n.is_empty() || n.iter().any(|&c| c <= b' ' || c == b'"' || c == b'\\' || c >= 0x7f)).unwrap_or(false)
}

/// C12 oracle.  Returns (violations, tag) where tag is "unparseable" for inputs the parser rejects.
pub fn check_c12(input: &[u8], seen: &mut Seen) -> (Vec<Violation>, String) {
    // as read with -p0 and with -p1: stripped names begin with whatever follows the first component (a quote, a dot, ...)
    let (mut out, tag) = check_c12_strip(input, 0, seen);
    if out.is_empty() {
        let (more, _) = check_c12_strip(input, 1, seen);
        out.extend(more.into_iter().map(|v| v.with("strip", "1")));
    }
    (out, tag)
}

fn check_c12_strip(input: &[u8], strip: usize, seen: &mut Seen) -> (Vec<Violation>, String) {
    let mut out = Vec::new();
    let p1 = match catch_unwind(AssertUnwindSafe(|| parse_patch(input, strip, false))) {
        Ok(Ok(p)) => p,
        _ => { take_panic(); return (out, "unparseable".to_string()); }
    };
    if p1.file_patches.is_empty() { return (out, "no-file-patch".to_string()); }
    seen.nontrivial = true;
    let v1 = view(&p1);
    for f in &v1 {
        if f.rename { seen.tag("rename"); }
        if f.old_mode.is_some() || f.new_mode.is_some() { seen.tag("modes"); }
        if f.kind == "Create" { seen.tag("create"); }
        if f.kind == "Delete" { seen.tag("delete"); }
        if f.hunks.is_empty() { seen.tag("hunkless"); }
        if name_special(&f.old) || name_special(&f.new) { seen.tag("special-name"); }
        if f.hunks.iter().any(|h| h.0.is_empty() || h.1.is_empty()) { seen.tag("empty-side"); }
        if f.hunks.iter().any(|h| h.0.last().map(|l| l.last() != Some(&b'\n')).unwrap_or(false) || h.1.last().map(|l| l.last() != Some(&b'\n')).unwrap_or(false)) { seen.tag("no-newline"); }
    }
    let mut w1 = Vec::new();
    match catch_unwind(AssertUnwindSafe(|| p1.write_to(&mut w1))) {
        Ok(Ok(())) => {}
        _ => { let p = take_panic(); out.push(Violation::new("C12", "write-failed", format!("writing failed: {}", p))); return (out, "ok".to_string()); }
    }
    // classification helpers for a differing file patch
    let cause_for = |a: &FpView| -> &'static str {
        if a.hunks.is_empty() && !a.rename && a.old_mode.is_none() && a.new_mode.is_none() && (a.old_hash.is_none() || a.new_hash.is_none()) { "hunkless-noop-dropped" }
        else if name_special(&a.old) || name_special(&a.new) { "name-needs-quoting" }
        else { "other" }
    };
    let p2 = match catch_unwind(AssertUnwindSafe(|| parse_patch(&w1, 0, false))) {
        Ok(Ok(p)) => p,
        Ok(Err(e)) => {
            let causes: Vec<&'static str> = v1.iter().map(|f| cause_for(f)).collect();
            let cause = if causes.contains(&"hunkless-noop-dropped") { "hunkless-noop-dropped" } else { causes.iter().cloned().find(|c| *c != "other").unwrap_or("other") };
            out.push(Violation::new("C12", "written-form-rejected", format!("parser rejects the written form: {}; written: {}", e, jstr(&w1))).with("cause", cause));
            return (out, "ok".to_string());
        }
        Err(_) => { let p = take_panic(); out.push(Violation::new("C12", "written-form-rejected", format!("parser panics on the written form: {}", p)).with("cause", "panic")); return (out, "ok".to_string()); }
    };
    let v2 = view(&p2);
    if v1.len() != v2.len() {
        let causes: Vec<&'static str> = v1.iter().map(|f| cause_for(f)).collect();
            let cause = if causes.contains(&"hunkless-noop-dropped") { "hunkless-noop-dropped" } else { causes.iter().cloned().find(|c| *c != "other").unwrap_or("other") };
        out.push(Violation::new("C12", "file-patch-count", format!("{} file patches became {}; written: {}", v1.len(), v2.len(), jstr(&w1))).with("cause", cause));
        return (out, "ok".to_string());
    }
    for (i, (a, b)) in v1.iter().zip(v2.iter()).enumerate() {
        let mut diff: Option<(&str, String)> = None;
        if a.kind != b.kind { diff = Some(("kind", "other".to_string())); }
        else if a.old != b.old || a.new != b.new {
            let cause = if name_special(&a.old) || name_special(&a.new) { "name-needs-quoting" }
                else if a.old.is_some() != b.old.is_some() || a.new.is_some() != b.new.is_some() { "devnull-substituted" } else { "other" };
            diff = Some(("name", cause.to_string()));
        }
        else if a.rename != b.rename { diff = Some(("rename", cause_for(a).to_string())); }
        else if a.old_mode != b.old_mode || a.new_mode != b.new_mode {
            let small = |m: Option<u32>| m.map(|m| m < 0o100000).unwrap_or(false);
            let cause = if small(a.old_mode) || small(a.new_mode) { "mode-leading-zero" } else { "mode-keyword" };
            diff = Some(("mode", cause.to_string()));
        }
        else if a.old_hash != b.old_hash || a.new_hash != b.new_hash { diff = Some(("hash", "other".to_string())); }
        else if a.hunks.len() != b.hunks.len() { diff = Some(("hunk-count", "other".to_string())); }
        else {
            for (x, y) in a.hunks.iter().zip(b.hunks.iter()) {
                if x.0 != y.0 || x.1 != y.1 { diff = Some(("hunk-lines", "other".to_string())); break; }
                if x.2 != y.2 || x.3 != y.3 {
                    let cause = if x.0.is_empty() || x.1.is_empty() { "empty-side-start" } else if x.2 > (1 << 62) || x.3 > (1 << 62) || x.2 < 0 || x.3 < 0 { "line-number-overflow" } else { "other" };
                    diff = Some(("start-line", cause.to_string())); break;
                }
            }
        }
        if let Some((field, cause)) = diff {
            out.push(Violation::new("C12", "roundtrip-differs", format!("file patch {}: {} differs after write+parse: {:?} vs {:?}; written {}", i, field, a, b, jstr(&w1)))
                .with("field", field).with("cause", &cause));
            return (out, "ok".to_string());
        }
    }
    let mut w2 = Vec::new();
    let _ = p2.write_to(&mut w2);
    if w1 != w2 {
        out.push(Violation::new("C12", "not-a-fixed-point", format!("write(parse(write(P))) differs: {} vs {}", jstr(&w1), jstr(&w2))));
    }
    (out, "ok".to_string())
}
