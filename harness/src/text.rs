//! Text helpers, the harness's own hunk representation, renderer and reader,
//! and an LCS based unified-diff generator.  Nothing here uses libpatch.

pub type Line = Vec<u8>;

/// Split into lines, each keeping its '\n'; the last line may lack it.
pub fn split_lines(bytes: &[u8]) -> Vec<Line> {
    let mut out = Vec::new();
    let mut start = 0;
    for (i, &c) in bytes.iter().enumerate() {
        if c == b'\n' {
            out.push(bytes[start..=i].to_vec());
            start = i + 1;
        }
    }
    if start < bytes.len() {
        out.push(bytes[start..].to_vec());
    }
    out
}

pub fn join(lines: &[Line]) -> Vec<u8> {
    let mut v = Vec::new();
    for l in lines {
        v.extend_from_slice(l);
    }
    v
}

#[derive(Clone, Debug, PartialEq)]
pub struct HunkSpec {
    /// numbers exactly as printed in the header
    pub old_start: u64,
    pub new_start: u64,
    /// (tag, content); tag is b' ', b'-' or b'+'
    pub lines: Vec<(u8, Line)>,
}

impl HunkSpec {
    pub fn old(&self) -> Vec<&[u8]> {
        self.lines.iter().filter(|(t, _)| *t != b'+').map(|(_, l)| &l[..]).collect()
    }
    pub fn new(&self) -> Vec<&[u8]> {
        self.lines.iter().filter(|(t, _)| *t != b'-').map(|(_, l)| &l[..]).collect()
    }
    /// leading context lines (as the format defines them: before the first change)
    pub fn prefix(&self) -> usize {
        self.lines.iter().take_while(|(t, _)| *t == b' ').count()
    }
    /// trailing context lines (after the last change); 0 if the hunk has no change
    pub fn suffix(&self) -> usize {
        if self.lines.iter().all(|(t, _)| *t == b' ') {
            return 0;
        }
        self.lines.iter().rev().take_while(|(t, _)| *t == b' ').count()
    }
    pub fn old_count(&self) -> usize { self.lines.iter().filter(|(t, _)| *t != b'+').count() }
    pub fn new_count(&self) -> usize { self.lines.iter().filter(|(t, _)| *t != b'-').count() }

    pub fn render(&self, out: &mut Vec<u8>) {
        // GNU diff prints a count of 1 as nothing; the choice is derived from the hunk (no random draw)
        fn range(start: u64, count: usize, salt: usize) -> String {
            if count == 1 && (start as usize + salt) % 2 == 0 { format!("{}", start) } else { format!("{},{}", start, count) }
        }
        out.extend_from_slice(
            format!("@@ -{} +{} @@\n", range(self.old_start, self.old_count(), self.lines.len()), range(self.new_start, self.new_count(), self.lines.len() + 1)).as_bytes());
        for (t, l) in &self.lines {
            out.push(*t);
            out.extend_from_slice(l);
            if l.last() != Some(&b'\n') {
                out.extend_from_slice(b"\n\\ No newline at end of file\n");
            }
        }
    }
}

/// 0-based target position of a hunk side as GNU patch / diff define it:
/// a non-empty side starting at printed line n sits at n-1; an empty side
/// printed as n means "after line n", i.e. position n.
pub fn target_of(printed: u64, count: usize) -> isize {
    if count == 0 { printed as isize } else { std::cmp::max(printed as isize - 1, 0) }
}

/// Read back hunks rendered by `HunkSpec::render` (and by diff -u): used for
/// replaying stored cases independently of libpatch's parser.
pub fn read_hunks(text: &[u8]) -> Vec<HunkSpec> {
    let lines = split_lines(text);
    let mut out: Vec<HunkSpec> = Vec::new();
    let mut i = 0;
    while i < lines.len() {
        let l = &lines[i];
        if l.starts_with(b"@@ -") {
            if let Some((os, oc, ns, nc)) = parse_header(l) {
                let mut h = HunkSpec { old_start: os, new_start: ns, lines: Vec::new() };
                let (mut o, mut n) = (oc, nc);
                i += 1;
                while (o > 0 || n > 0) && i < lines.len() {
                    let l = &lines[i];
                    if l.is_empty() { break; }
                    let tag = l[0];
                    if tag == b'\\' {
                        if let Some(last) = h.lines.last_mut() {
                            if last.1.last() == Some(&b'\n') { last.1.pop(); }
                        }
                        i += 1;
                        continue;
                    }
                    let body = l[1..].to_vec();
                    match tag {
                        b' ' => { if o == 0 || n == 0 { break; } o -= 1; n -= 1; }
                        b'-' => { if o == 0 { break; } o -= 1; }
                        b'+' => { if n == 0 { break; } n -= 1; }
                        _ => break,
                    }
                    h.lines.push((tag, body));
                    i += 1;
                }
                if i < lines.len() && lines[i].starts_with(b"\\") {
                    if let Some(last) = h.lines.last_mut() {
                        if last.1.last() == Some(&b'\n') { last.1.pop(); }
                    }
                    i += 1;
                }
                out.push(h);
                continue;
            }
        }
        i += 1;
    }
    out
}

fn parse_header(l: &[u8]) -> Option<(u64, usize, u64, usize)> {
    let s = std::str::from_utf8(l).ok()?;
    let s = s.strip_prefix("@@ -")?;
    let end = s.find(" @@")?;
    let body = &s[..end];
    let mut it = body.split(" +");
    let a = it.next()?;
    let b = it.next()?;
    fn pair(x: &str) -> Option<(u64, usize)> {
        let mut p = x.split(',');
        let s = p.next()?.parse::<u64>().ok()?;
        let c = match p.next() { Some(c) => c.parse::<usize>().ok()?, None => 1 };
        Some((s, c))
    }
    let (os, oc) = pair(a)?;
    let (ns, nc) = pair(b)?;
    Some((os, oc, ns, nc))
}

#[derive(Clone, Copy, PartialEq, Debug)]
pub enum Op { Eq, Del, Ins }

/// Edit script by classic LCS dynamic programming (inputs are small).
pub fn edit_script(a: &[Line], b: &[Line]) -> Vec<Op> {
    let n = a.len();
    let m = b.len();
    let mut t = vec![0u32; (n + 1) * (m + 1)];
    let idx = |i: usize, j: usize| i * (m + 1) + j;
    for i in (0..n).rev() {
        for j in (0..m).rev() {
            t[idx(i, j)] = if a[i] == b[j] { t[idx(i + 1, j + 1)] + 1 } else { std::cmp::max(t[idx(i + 1, j)], t[idx(i, j + 1)]) };
        }
    }
    let mut ops = Vec::new();
    let (mut i, mut j) = (0, 0);
    while i < n || j < m {
        if i < n && j < m && a[i] == b[j] {
            ops.push(Op::Eq); i += 1; j += 1;
        } else if i < n && (j == m || t[idx(i + 1, j)] >= t[idx(i, j + 1)]) {
            ops.push(Op::Del); i += 1;
        } else {
            ops.push(Op::Ins); j += 1;
        }
    }
    // normalise each change block to deletions first, then insertions (as diff prints)
    let mut k = 0;
    while k < ops.len() {
        if ops[k] != Op::Eq {
            let start = k;
            while k < ops.len() && ops[k] != Op::Eq { k += 1; }
            let dels = ops[start..k].iter().filter(|o| **o == Op::Del).count();
            for (x, o) in ops[start..k].iter_mut().enumerate() {
                *o = if x < dels { Op::Del } else { Op::Ins };
            }
        } else {
            k += 1;
        }
    }
    ops
}

/// Unified diff hunks of a -> b with `ctx` lines of context, numbered as GNU diff does.
pub fn diff_hunks(a: &[Line], b: &[Line], ctx: usize) -> Vec<HunkSpec> {
    let ops = edit_script(a, b);
    // positions of ops in a and b
    let mut hunks = Vec::new();
    let mut k = 0;
    let n = ops.len();
    // indices of change ops
    let changes: Vec<usize> = (0..n).filter(|&i| ops[i] != Op::Eq).collect();
    if changes.is_empty() { return hunks; }
    // prefix sums: a index and b index before op k
    let mut ai = vec![0usize; n + 1];
    let mut bi = vec![0usize; n + 1];
    for i in 0..n {
        ai[i + 1] = ai[i] + if ops[i] != Op::Ins { 1 } else { 0 };
        bi[i + 1] = bi[i] + if ops[i] != Op::Del { 1 } else { 0 };
    }
    while k < changes.len() {
        let first = changes[k];
        let mut last = first;
        let mut kk = k;
        while kk + 1 < changes.len() && changes[kk + 1] - last - 1 <= 2 * ctx {
            kk += 1;
            last = changes[kk];
        }
        // extend run of adjacent changes
        let start = first.saturating_sub(ctx);
        let end = std::cmp::min(n, last + 1 + ctx);
        let mut lines = Vec::new();
        for i in start..end {
            match ops[i] {
                Op::Eq => lines.push((b' ', a[ai[i]].clone())),
                Op::Del => lines.push((b'-', a[ai[i]].clone())),
                Op::Ins => lines.push((b'+', b[bi[i]].clone())),
            }
        }
        let oc = ai[end] - ai[start];
        let nc = bi[end] - bi[start];
        let old_start = if oc == 0 { ai[start] as u64 } else { ai[start] as u64 + 1 };
        let new_start = if nc == 0 { bi[start] as u64 } else { bi[start] as u64 + 1 };
        hunks.push(HunkSpec { old_start, new_start, lines });
        k = kk + 1;
    }
    hunks
}

pub fn hex(b: &[u8]) -> String {
    let mut s = String::with_capacity(b.len() * 2);
    for c in b { s.push_str(&format!("{:02x}", c)); }
    s
}

pub fn unhex(s: &str) -> Vec<u8> {
    let b = s.as_bytes();
    let mut v = Vec::with_capacity(b.len() / 2);
    let mut i = 0;
    while i + 1 < b.len() {
        let h = (b[i] as char).to_digit(16).unwrap_or(0) as u8;
        let l = (b[i + 1] as char).to_digit(16).unwrap_or(0) as u8;
        v.push(h << 4 | l);
        i += 2;
    }
    v
}

/// JSON string whose code points are the bytes (latin-1 view); python side
/// recovers the bytes with .encode('latin-1').
pub fn jstr(b: &[u8]) -> String {
    let mut s = String::with_capacity(b.len() + 2);
    s.push('"');
    for &c in b {
        match c {
            b'"' => s.push_str("\\\""),
            b'\\' => s.push_str("\\\\"),
            b'\n' => s.push_str("\\n"),
            b'\t' => s.push_str("\\t"),
            0x20..=0x7e => s.push(c as char),
            _ => s.push_str(&format!("\\u{:04x}", c)),
        }
    }
    s.push('"');
    s
}
