//! rqh — in-process monitor harness linked against /repo's libpatch.
//!
//!   rqh run --prop C02 --gen drift --seed 1 --shard 0 --shards 16 --start 0 --count 100000
//!           --out r.json --hashes r.bin --progress r.prog [--repo /repo]
//!   rqh replay --prop C02 <case file>
//!   rqh dump <patch file> <strip>
//!
//! A shard walks indices start..start+count with index % shards == shard, writes the index it is
//! about to run into the progress file (so the driver can attribute an abort, a refused giant
//! allocation (exit 86) or a hang to one case) and finally writes a JSON summary.

mod alloc;
mod case;
mod gen;
mod oracle;
mod parsecase;
mod rng;
mod text;

use std::collections::{BTreeMap, HashSet};
use std::io::Write;
use std::os::unix::fs::FileExt;

use case::*;
use oracle::*;
use text::*;

#[global_allocator]
static GLOBAL: alloc::Counting = alloc::Counting;

fn arg<'a>(args: &'a [String], name: &str) -> Option<&'a str> {
    args.iter().position(|a| a == name).and_then(|i| args.get(i + 1)).map(|s| &s[..])
}

fn main() {
    let args: Vec<String> = std::env::args().collect();
    install_panic_hook();
    // a giant request is refused by the allocator; make that a controlled exit the driver recognises
    alloc::HARD_CAP.store(1 << 32, std::sync::atomic::Ordering::Relaxed);
    match args.get(1).map(|s| &s[..]) {
        Some("run") => run(&args),
        Some("replay") => replay(&args),
        Some("dump") => dump(&args),
        Some("export") => export(&args),
        Some("genbytes") => genbytes(&args),
        _ => { eprintln!("usage: rqh run|replay|dump ..."); std::process::exit(2); }
    }
}

enum Item { Apply(ApplyCase), Bytes(Vec<u8>), Skip }

struct Source {
    gen: String,
    seed: u64,
    pair_space: Option<gen::PairSpace>,
    place_space: Option<gen::PlaceSpace>,
    vocab_space: Option<parsecase::VocabSpace>,
    corpus: Vec<Vec<u8>>,
}

impl Source {
    fn new(gen_name: &str, seed: u64, repo: &str, param: u64) -> Source {
        let mut s = Source { gen: gen_name.to_string(), seed, pair_space: None, place_space: None, vocab_space: None, corpus: Vec::new() };
        match gen_name {
            "pair-exhaustive" => s.pair_space = Some(gen::PairSpace::new(param as usize)),
            "place-exhaustive" => s.place_space = Some(gen::PlaceSpace::new(param as usize)),
            "vocab" => s.vocab_space = Some(parsecase::VocabSpace { maxlen: param as usize }),
            "mutant" | "corpus" => s.corpus = parsecase::load_corpus(repo, seed),
            _ => {}
        }
        s
    }
    fn total(&self) -> Option<u64> {
        match &self.gen[..] {
            "pair-exhaustive" => Some(self.pair_space.as_ref().unwrap().total()),
            "place-exhaustive" => Some(self.place_space.as_ref().unwrap().total()),
            "vocab" => Some(self.vocab_space.as_ref().unwrap().total()),
            "numeric" => Some(parsecase::numeric_total()),
            "corpus" => Some(self.corpus.len() as u64),
            _ => None,
        }
    }
    fn get(&self, index: u64) -> Item {
        match &self.gen[..] {
            "drift" => Item::Apply(gen::gen_drift(self.seed, index)),
            "pair" => Item::Apply(gen::gen_pair(self.seed, index)),
            "two" => Item::Apply(gen::gen_two(self.seed, index)),
            "stack" => Item::Apply(gen::gen_stack(self.seed, index)),
            "pair-exhaustive" => match self.pair_space.as_ref().unwrap().get(index) { Some(c) => Item::Apply(c), None => Item::Skip },
            "place-exhaustive" => Item::Apply(self.place_space.as_ref().unwrap().get(index)),
            "vocab" => Item::Bytes(self.vocab_space.as_ref().unwrap().get(index)),
            "numeric" => Item::Bytes(parsecase::gen_numeric(index)),
            "mutant" => Item::Bytes(parsecase::gen_mutant(&self.corpus, self.seed, index)),
            "corpus" => Item::Bytes(self.corpus[index as usize % self.corpus.len()].clone()),
            "bytes" => Item::Bytes(parsecase::gen_random_bytes(self.seed, index)),
            "valid" => Item::Bytes(parsecase::gen_valid_patch(self.seed, index)),
            _ => { eprintln!("unknown generator {}", self.gen); std::process::exit(2); }
        }
    }
}

struct Outcome { viols: Vec<Violation>, seen: Seen, execs: usize, tag: String }

fn eval_apply(prop: &str, c: &ApplyCase) -> Outcome {
    let mut seen = Seen::default();
    if prop == "C20" {
        let (v, execs) = check_c20(c, &mut seen);
        return Outcome { viols: v, seen, execs, tag: "judged".to_string() };
    }
    let ex = execute(c, None, prop == "C04");
    match ex {
        Err(ExecError::ApplyPanic { step, msg }) => {
            let mut v = Vec::new();
            if prop == "C03" || prop == "C01" {
                let p: &'static str = if prop == "C03" { "C03" } else { "C01" };
                v.push(Violation::new(p, "apply-panic", format!("apply of step {} aborted: {}", step, msg)).with("panic", &panic_class(&msg)));
                seen.nontrivial = true;
            }
            Outcome { viols: v, seen, execs: 1, tag: "apply-panic".to_string() }
        }
        Err(ExecError::Parse(m)) => {
            let mut v = Vec::new();
            if prop == "C01" { v.push(Violation::new("C01", "patch-rejected", format!("the diff does not parse: {}", m))); }
            Outcome { viols: v, seen, execs: 1, tag: "parse-error".to_string() }
        }
        Err(ExecError::NotOneFilePatch(n)) => {
            let mut v = Vec::new();
            if prop == "C01" { v.push(Violation::new("C01", "patch-misparsed", format!("the diff parses into {} file patches", n))); }
            Outcome { viols: v, seen, execs: 1, tag: "not-one-file-patch".to_string() }
        }
        Ok(ex) => {
            let v = match prop {
                "C01" => check_c01(c, &ex, &mut seen),
                "C02" => check_c02(c, &ex, c.fuzz, &mut seen),
                "C03" => check_c03(c, &ex, &mut seen),
                "C04" => check_c04(c, &ex, &mut seen),
                _ => { eprintln!("property {} is not an apply-type property", prop); std::process::exit(2); }
            };
            for st in &ex.steps {
                for h in &st.hunks {
                    match h {
                        HunkObs::Applied { offset, fuzz, .. } => {
                            seen.tag("hunk-applied");
                            if *offset != 0 { seen.tag("hunk-offset!=0"); }
                            if *fuzz > 0 { seen.tag("hunk-fuzz>0"); }
                        }
                        HunkObs::Failed(_) => seen.tag("hunk-failed"),
                        HunkObs::Skipped => {}
                    }
                }
            }
            Outcome { viols: v, seen, execs: 1, tag: "judged".to_string() }
        }
    }
}

fn eval_bytes(prop: &str, b: &[u8]) -> Outcome {
    let mut seen = Seen::default();
    match prop {
        "C11" => {
            let mut viols = Vec::new();
            let mut tag = String::new();
            for &strip in &[1usize, 0, std::usize::MAX] {
                let (v, t) = parsecase::check_c11(b, strip, &mut seen);
                if strip == 1 { tag = t; }
                viols.extend(v);
                if !viols.is_empty() { break; }
            }
            Outcome { viols, seen, execs: 3, tag }
        }
        "C12" => {
            let (v, t) = parsecase::check_c12(b, &mut seen);
            Outcome { viols: v, seen, execs: 1, tag: t }
        }
        _ => { eprintln!("property {} is not a bytes-type property", prop); std::process::exit(2); }
    }
}

fn sig_string(v: &Violation) -> String {
    let mut s = String::new();
    for (k, val) in &v.sig { s.push_str(&format!("{}={};", k, val)); }
    s
}

fn run(args: &[String]) {
    let prop = arg(args, "--prop").expect("--prop").to_string();
    let gen_name = arg(args, "--gen").expect("--gen").to_string();
    let seed: u64 = arg(args, "--seed").unwrap_or("0").parse().unwrap();
    let shard: u64 = arg(args, "--shard").unwrap_or("0").parse().unwrap();
    let shards: u64 = arg(args, "--shards").unwrap_or("1").parse().unwrap();
    let start: u64 = arg(args, "--start").unwrap_or("0").parse().unwrap();
    let count: u64 = arg(args, "--count").unwrap_or("1000").parse().unwrap();
    let param: u64 = arg(args, "--param").unwrap_or("3").parse().unwrap();
    let repo = arg(args, "--repo").unwrap_or("/repo").to_string();
    let out_path = arg(args, "--out").expect("--out").to_string();
    let hashes_path = arg(args, "--hashes").map(|s| s.to_string());
    let progress_path = arg(args, "--progress").map(|s| s.to_string());
    let max_keep: usize = arg(args, "--keep").unwrap_or("3").parse().unwrap();

    let src = Source::new(&gen_name, seed, &repo, param);
    let total = src.total();
    let end = match total { Some(t) => std::cmp::min(t, start.saturating_add(count)), None => start.saturating_add(count) };
    let progress = progress_path.map(|p| std::fs::OpenOptions::new().create(true).write(true).open(p).expect("progress file"));

    let mut evaluations = 0u64;
    let mut skipped = 0u64;
    let mut execs = 0u64;
    let mut nontrivial: HashSet<u64> = HashSet::new();
    let mut tags: BTreeMap<String, u64> = BTreeMap::new();
    let mut outcomes: BTreeMap<String, u64> = BTreeMap::new();
    let mut sig_counts: BTreeMap<String, u64> = BTreeMap::new();
    let mut kept: Vec<(u64, Violation, String)> = Vec::new();
    let mut samples: Vec<String> = Vec::new();
    let mut violations = 0u64;

    let mut index = start + ((shard + shards - (start % shards)) % shards);
    while index < end {
        if let Some(f) = &progress { let _ = f.write_at(&index.to_le_bytes(), 0); }
        let item = src.get(index);
        let (o, ser, desc, h) = match &item {
            Item::Skip => { skipped += 1; index += shards; continue; }
            Item::Apply(c) => {
                let o = eval_apply(&prop, c);
                let ser = c.serialize();
                let h = rng::hash_bytes(7, ser.as_bytes());
                (o, ser, c.describe(), h)
            }
            Item::Bytes(b) => {
                let o = eval_bytes(&prop, b);
                let h = rng::hash_bytes(11, b);
                (o, format!("rqh-bytes-case 1\ngen {}\nbytes {}\n", gen_name, hex(b)), format!("{{\"gen\":{},\"input\":{}}}", jstr(gen_name.as_bytes()), jstr(b)), h)
            }
        };
        evaluations += 1;
        execs += o.execs as u64;
        *outcomes.entry(o.tag.clone()).or_insert(0) += 1;
        for t in &o.seen.tags { *tags.entry(t.to_string()).or_insert(0) += 1; }
        if o.seen.nontrivial {
            if nontrivial.insert(h) && samples.len() < 3 && (index / shards) % 997 == 3 % 997 || (o.seen.nontrivial && samples.is_empty()) {
                samples.push(desc.clone());
            }
        }
        for v in o.viols {
            violations += 1;
            let s = sig_string(&v);
            let n = sig_counts.entry(s).or_insert(0);
            *n += 1;
            if (*n as usize) <= max_keep { kept.push((index, v, ser.clone())); }
        }
        index += shards;
    }

    if let Some(hp) = hashes_path {
        let mut f = std::fs::File::create(hp).expect("hash file");
        let mut buf = Vec::with_capacity(nontrivial.len() * 8);
        for h in &nontrivial { buf.extend_from_slice(&h.to_le_bytes()); }
        f.write_all(&buf).unwrap();
    }
    let mut j = String::new();
    j.push_str(&format!("{{\"prop\":\"{}\",\"gen\":\"{}\",\"seed\":{},\"shard\":{},\"shards\":{},\"start\":{},\"end\":{},\"space_total\":{},",
        prop, gen_name, seed, shard, shards, start, end, match total { Some(t) => t.to_string(), None => "null".to_string() }));
    j.push_str(&format!("\"evaluations\":{},\"skipped\":{},\"execs\":{},\"nontrivial\":{},\"violations\":{},", evaluations, skipped, execs, nontrivial.len(), violations));
    let map = |m: &BTreeMap<String, u64>| -> String {
        let mut s = String::from("{");
        for (i, (k, v)) in m.iter().enumerate() { if i > 0 { s.push(','); } s.push_str(&format!("{}:{}", jstr(k.as_bytes()), v)); }
        s.push('}');
        s
    };
    j.push_str(&format!("\"tags\":{},\"outcomes\":{},\"sig_counts\":{},", map(&tags), map(&outcomes), map(&sig_counts)));
    j.push_str("\"samples\":[");
    for (i, s) in samples.iter().enumerate() { if i > 0 { j.push(','); } j.push_str(s); }
    j.push_str("],\"kept\":[");
    for (i, (idx, v, ser)) in kept.iter().enumerate() {
        if i > 0 { j.push(','); }
        let mut sig = String::from("{");
        for (k, (a, b)) in v.sig.iter().enumerate() { if k > 0 { sig.push(','); } sig.push_str(&format!("{}:{}", jstr(a.as_bytes()), jstr(b.as_bytes()))); }
        sig.push('}');
        j.push_str(&format!("{{\"index\":{},\"prop\":\"{}\",\"sig\":{},\"detail\":{},\"case\":{}}}", idx, v.prop, sig, jstr(v.detail.as_bytes()), jstr(ser.as_bytes())));
    }
    j.push_str("]}");
    std::fs::write(&out_path, j).expect("write out");
}

fn replay(args: &[String]) {
    let prop = arg(args, "--prop").expect("--prop").to_string();
    let path = args.last().unwrap();
    let text = std::fs::read_to_string(path).expect("case file");
    let o = if text.starts_with("rqh-apply-case") {
        let c = ApplyCase::deserialize(&text).expect("bad case file");
        println!("{}", c.describe());
        if let Ok(ex) = execute(&c, None, true) {
            for (i, s) in ex.steps.iter().enumerate() {
                println!("step {} kind {} hunks {:?}", i, s.kind, s.hunks);
                println!("  before {} deleted={} perms={:?}", jstr(&s.before.bytes()), s.before.deleted, s.before.perms);
                println!("  after  {} deleted={} perms={:?}", jstr(&s.after.bytes()), s.after.deleted, s.after.perms);
            }
            for (i, r) in &ex.rollback {
                match r { Ok(s) => println!("undo {} -> {} deleted={} perms={:?}", i, jstr(&s.bytes()), s.deleted, s.perms), Err(p) => println!("undo {} PANIC {}", i, p) }
            }
        }
        eval_apply(&prop, &c)
    } else {
        let mut bytes = Vec::new();
        for l in text.lines() { if let Some(h) = l.strip_prefix("bytes ") { bytes = unhex(h); } }
        println!("input {}", jstr(&bytes));
        eval_bytes(&prop, &bytes)
    };
    println!("outcome {} tags {:?}", o.tag, o.seen.tags);
    if o.viols.is_empty() {
        println!("HELD");
        std::process::exit(0);
    }
    for v in &o.viols {
        println!("VIOLATED {} {} :: {}", v.prop, sig_string(v), v.detail);
    }
    std::process::exit(1);
}

fn dump(args: &[String]) {
    use libpatch::patch::unified::parser::parse_patch;
    use std::os::unix::ffi::OsStrExt;
    use std::os::unix::fs::PermissionsExt;
    let path = args.get(2).expect("file");
    let strip: usize = args.get(3).map(|s| s.parse().unwrap()).unwrap_or(0);
    let bytes = std::fs::read(path).expect("read");
    match parse_patch(&bytes, strip, false) {
        Err(e) => { println!("{{\"error\":{}}}", jstr(format!("{}", e).as_bytes())); }
        Ok(p) => {
            let mut s = String::from("{\"file_patches\":[");
            for (i, fp) in p.file_patches.iter().enumerate() {
                if i > 0 { s.push(','); }
                let name = |n: Option<&std::borrow::Cow<std::path::Path>>| n.map(|n| jstr(n.as_os_str().as_bytes())).unwrap_or("null".to_string());
                s.push_str(&format!("{{\"kind\":\"{}\",\"old\":{},\"new\":{},\"rename\":{},\"old_mode\":{},\"new_mode\":{},\"hunks\":[",
                    kind_name(fp.kind()), name(fp.old_filename()), name(fp.new_filename()), fp.is_rename(),
                    fp.old_permissions().map(|m| m.mode().to_string()).unwrap_or("null".to_string()),
                    fp.new_permissions().map(|m| m.mode().to_string()).unwrap_or("null".to_string())));
                for (k, h) in fp.hunks().iter().enumerate() {
                    if k > 0 { s.push(','); }
                    let lines = |v: &Vec<&[u8]>| { let mut t = String::from("["); for (x, l) in v.iter().enumerate() { if x > 0 { t.push(','); } t.push_str(&jstr(l)); } t.push(']'); t };
                    s.push_str(&format!("{{\"old_line\":{},\"new_line\":{},\"old\":{},\"new\":{}}}", h.remove.target_line, h.add.target_line, lines(&h.remove.content), lines(&h.add.content)));
                }
                s.push_str("]}");
            }
            s.push_str("]}");
            println!("{}", s);
        }
    }
}


/// Write the cases of an apply-type generator as files (for checking the harness's own diff renderer against GNU patch):
/// <dir>/<i>.file (absent when the case starts from a missing file), <i>.patch, <i>.expect (absent = file must not exist), <i>.rev (present when reversed)
fn export(args: &[String]) {
    let gen_name = arg(args, "--gen").expect("--gen").to_string();
    let seed: u64 = arg(args, "--seed").unwrap_or("0").parse().unwrap();
    let count: u64 = arg(args, "--count").unwrap_or("100").parse().unwrap();
    let param: u64 = arg(args, "--param").unwrap_or("3").parse().unwrap();
    let dir = arg(args, "--dir").expect("--dir").to_string();
    let src = Source::new(&gen_name, seed, "/repo", param);
    std::fs::create_dir_all(&dir).unwrap();
    let mut n = 0;
    let mut index = 0u64;
    while n < count && index < count * 50 {
        if let Item::Apply(c) = src.get(index) {
            if c.steps.len() == 1 {
                if let Some(f) = &c.file { std::fs::write(format!("{}/{}.file", dir, n), f).unwrap(); }
                std::fs::write(format!("{}/{}.patch", dir, n), &c.steps[0].patch).unwrap();
                if c.steps[0].reverse { std::fs::write(format!("{}/{}.rev", dir, n), b"").unwrap(); }
                if let Some(Some(e)) = &c.expect { std::fs::write(format!("{}/{}.expect", dir, n), e).unwrap(); }
                n += 1;
            }
        }
        index += 1;
    }
    println!("{}", n);
}


/// Print the bytes-type input a generator produces for one index (hex), without evaluating any oracle.
fn genbytes(args: &[String]) {
    let gen_name = arg(args, "--gen").expect("--gen").to_string();
    let seed: u64 = arg(args, "--seed").unwrap_or("0").parse().unwrap();
    let index: u64 = arg(args, "--index").unwrap_or("0").parse().unwrap();
    let param: u64 = arg(args, "--param").unwrap_or("3").parse().unwrap();
    let repo = arg(args, "--repo").unwrap_or("/repo").to_string();
    let src = Source::new(&gen_name, seed, &repo, param);
    if let Item::Bytes(b) = src.get(index) { println!("{}", hex(&b)); }
}
