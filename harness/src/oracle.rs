//! Oracles over observed executions.  Independent of libpatch's scan: the
//! placement model brute-forces the set of matching positions.

use std::collections::BTreeMap;

use crate::case::*;
use crate::text::*;

#[derive(Clone, Debug)]
pub struct Violation {
    pub prop: &'static str,
    pub class: String,
    pub sig: BTreeMap<String, String>,
    pub detail: String,
}

impl Violation {
    pub fn new(prop: &'static str, class: &str, detail: String) -> Violation {
        let mut sig = BTreeMap::new();
        sig.insert("class".to_string(), class.to_string());
        Violation { prop, class: class.to_string(), sig, detail }
    }
    pub fn with(mut self, k: &str, v: &str) -> Violation {
        self.sig.insert(k.to_string(), v.to_string());
        self
    }
}

/// What an oracle learnt from a case (for evidence counters).
#[derive(Default, Debug)]
pub struct Seen {
    pub nontrivial: bool,
    pub tags: Vec<&'static str>,
}

impl Seen {
    pub fn tag(&mut self, t: &'static str) { if !self.tags.contains(&t) { self.tags.push(t); } }
}

pub struct Side<'a> {
    pub rem: Vec<&'a [u8]>,
    pub add: Vec<&'a [u8]>,
    pub p: usize,
    pub s: usize,
    pub stated: isize,
}

pub fn side_of<'a>(h: &'a HunkSpec, reverse: bool) -> Side<'a> {
    let (old, new) = (h.old(), h.new());
    let ot = target_of(h.old_start, old.len());
    let nt = target_of(h.new_start, new.len());
    let (p, s) = (h.prefix(), h.suffix());
    if reverse { Side { rem: new, add: old, p, s, stated: nt } } else { Side { rem: old, add: new, p, s, stated: ot } }
}

/// Trim amounts at fuzz level l: (prefix_trim, suffix_trim)
pub fn trims(p: usize, s: usize, l: usize) -> (usize, usize) {
    let keep = std::cmp::max(p, s).saturating_sub(l);
    (p - std::cmp::min(p, keep), s - std::cmp::min(s, keep))
}

#[derive(Debug, PartialEq, Clone, Copy)]
pub enum Anchor { Start, End, Middle }

/// The position the documented rules select at level `l`, ignoring the ordering restriction:
/// (anchor, number of matching positions, selected position)
pub fn select(file: &[Line], sd: &Side, l: usize, last_offset: isize) -> (Anchor, usize, Option<isize>) {
    let (pf, sf) = trims(sd.p, sd.s, l);
    let view = &sd.rem[pf..sd.rem.len() - sf];
    let (vp, vs) = (sd.p - pf, sd.s - sf);
    let anchor = if vp < vs && sd.stated == 0 { Anchor::Start } else if vp > vs { Anchor::End } else { Anchor::Middle };
    if view.len() > file.len() {
        return (anchor, 0, None);
    }
    let mut m: Vec<isize> = Vec::new();
    for q in 0..=(file.len() - view.len()) {
        if (0..view.len()).all(|k| &file[q + k][..] == view[k]) {
            m.push(q as isize);
        }
    }
    let sel = match anchor {
        Anchor::Start => if m.contains(&0) { Some(0) } else { None },
        Anchor::End => { let e = (file.len() - view.len()) as isize; if m.contains(&e) { Some(e) } else { None } }
        Anchor::Middle => {
            // the lines trimmed from the front are skipped, not pulled out: the view is expected pf lines below the stated line
            let e = sd.stated + pf as isize + last_offset;
            let mut best: Option<isize> = None;
            for &q in &m {
                best = match best {
                    None => Some(q),
                    Some(b) => {
                        let (db, dq) = ((b - e).abs(), (q - e).abs());
                        if dq < db || (dq == db && q > b) { Some(q) } else { Some(b) }
                    }
                };
            }
            best
        }
    };
    (anchor, m.len(), sel)
}

/// C02: every hunk report of a Modify step is checked against the rules, given the
/// observed reports of the earlier hunks.
pub fn check_c02(case: &ApplyCase, ex: &Exec, fuzz_limit: usize, seen: &mut Seen) -> Vec<Violation> {
    let mut out = Vec::new();
    for (si, st) in ex.steps.iter().enumerate() {
        if st.kind != "Modify" || st.before.deleted { continue; }
        let specs = read_hunks(&case.steps[si].patch);
        if specs.len() != st.hunks.len() { continue; }
        let reverse = case.steps[si].reverse;
        let file = &st.before.lines;
        let mut last_offset = 0isize;
        let mut last_frozen = -1isize;
        for (hi, h) in specs.iter().enumerate() {
            let sd = side_of(h, reverse);
            let maxl = std::cmp::min(fuzz_limit, std::cmp::max(sd.p, sd.s));
            let blocked = |l: usize, q: isize| -> bool {
                let (pf, _) = trims(sd.p, sd.s, l);
                q + (sd.p - pf) as isize <= last_frozen
            };
            match &st.hunks[hi] {
                HunkObs::Applied { line, offset, fuzz, .. } => {
                    let l = *fuzz;
                    if l > maxl {
                        out.push(Violation::new("C02", "fuzz-above-limit", format!("step {} hunk {}: fuzz {} > permitted {}", si, hi, l, maxl)));
                        continue;
                    }
                    let (anchor, nmatch, sel) = select(file, &sd, l, last_offset);
                    if nmatch >= 2 { seen.nontrivial = true; seen.tag("ambiguous"); }
                    if anchor != Anchor::Middle { seen.nontrivial = true; seen.tag(if anchor == Anchor::Start { "anchored-start" } else { "anchored-end" }); }
                    if l > 0 { seen.nontrivial = true; seen.tag("fuzz>0"); }
                    if *offset != 0 { seen.nontrivial = true; seen.tag("offset!=0"); }
                    if sel != Some(*line) {
                        let class = match (anchor, sel) {
                            (Anchor::Middle, None) => "applied-where-nothing-matches",
                            (Anchor::Middle, Some(_)) => "not-nearest-match",
                            (_, _) => "anchored-hunk-applied-elsewhere",
                        };
                        out.push(Violation::new("C02", class, format!("step {} hunk {}: reported line {} fuzz {}, rules select {:?} (anchor {:?}, {} matches, expected line {})",
                            si, hi, line, l, sel, anchor, nmatch, sd.stated + last_offset))
                            .with("anchor", &format!("{:?}", anchor)));
                    } else if *offset != *line - sd.stated - (if anchor == Anchor::Middle { trims(sd.p, sd.s, l).0 as isize } else { 0 }) {
                        out.push(Violation::new("C02", "offset-misreported", format!("step {} hunk {}: line {} stated {} offset {} (fuzz {})", si, hi, line, sd.stated, offset, l)));
                    } else {
                        // lowest level rule
                        for l2 in 0..l {
                            let (a2, _, sel2) = select(file, &sd, l2, last_offset);
                            if let Some(q2) = sel2 {
                                if !blocked(l2, q2) {
                                    out.push(Violation::new("C02", "lower-fuzz-level-skipped", format!("step {} hunk {}: applied with fuzz {} but level {} admits line {} (anchor {:?})", si, hi, l, l2, q2, a2)));
                                    break;
                                }
                            }
                        }
                    }
                    let (pf, sf) = trims(sd.p, sd.s, l);
                    let vlen = sd.rem.len() - pf - sf;
                    last_offset = *offset;
                    last_frozen = *line + vlen as isize - (sd.s - sf) as isize;
                }
                HunkObs::Failed(r) if r == "NoMatchingLines" => {
                    seen.nontrivial = true; seen.tag("failed-nomatch");
                    for l in 0..=maxl {
                        let (a, _, sel) = select(file, &sd, l, last_offset);
                        if let Some(q) = sel {
                            if !blocked(l, q) {
                                out.push(Violation::new("C02", "failed-although-admissible", format!("step {} hunk {}: reported NoMatchingLines but level {} admits line {} (anchor {:?}, limit {})", si, hi, l, q, a, fuzz_limit))
                                    .with("anchor", &format!("{:?}", a)));
                                break;
                            }
                        }
                    }
                }
                HunkObs::Failed(r) if r == "MisorderedHunks" => {
                    // refused because the nearest match lies before (or on) lines an earlier hunk froze: then no permitted
                    // level may have a nearest match behind them (the level loop must go on after a misordered level)
                    seen.nontrivial = true; seen.tag("failed-misordered");
                    for l in 0..=maxl {
                        let (a, _, sel) = select(file, &sd, l, last_offset);
                        if let Some(q) = sel {
                            if !blocked(l, q) {
                                out.push(Violation::new("C02", "failed-although-admissible", format!("step {} hunk {}: reported MisorderedHunks but level {} admits line {} behind the previous hunk (anchor {:?}, limit {})", si, hi, l, q, a, fuzz_limit))
                                    .with("anchor", &format!("{:?}", a)).with("reported", "MisorderedHunks"));
                                break;
                            }
                        }
                    }
                }
                HunkObs::Failed(_) => {}
                HunkObs::Skipped => {}
            }
        }
    }
    out
}

/// C03: reconstruct the expected content from the reports alone.
pub fn check_c03(case: &ApplyCase, ex: &Exec, seen: &mut Seen) -> Vec<Violation> {
    let mut out = Vec::new();
    for (si, st) in ex.steps.iter().enumerate() {
        let specs = read_hunks(&case.steps[si].patch);
        if specs.len() != st.hunks.len() { continue; }
        let reverse = case.steps[si].reverse;
        let applied = st.hunks.iter().filter(|h| matches!(h, HunkObs::Applied { .. })).count();
        let failed = st.hunks.iter().filter(|h| matches!(h, HunkObs::Failed(_))).count();
        if st.kind != "Modify" {
            // creation / deletion: whole content is the hunk's new side, or nothing
            if specs.len() != 1 { continue; }
            let sd = side_of(&specs[0], reverse);
            let expect: Vec<Line> = if applied == 1 { sd.add.iter().map(|l| l.to_vec()).collect() } else { st.before.lines.clone() };
            if st.after.lines != expect {
                out.push(Violation::new("C03", "create-delete-content", format!("step {} kind {}: content after differs from the hunk's new side", si, st.kind)));
            }
            continue;
        }
        if applied >= 2 { seen.nontrivial = true; seen.tag("multi-hunk"); }
        if applied >= 1 && failed >= 1 { seen.nontrivial = true; seen.tag("partial"); }
        let orig = &st.before.lines;
        let mut expect: Vec<Line> = Vec::new();
        let mut cursor = 0usize;
        let mut judged = true;
        let mut offsets = Vec::new();
        let mut prev_view_end: isize = -1;
        for (hi, h) in specs.iter().enumerate() {
            if let HunkObs::Applied { line, fuzz, offset, .. } = &st.hunks[hi] {
                let sd = side_of(h, reverse);
                let (pf, sf) = trims(sd.p, sd.s, *fuzz);
                if *line < prev_view_end { seen.tag("overlapping-context"); seen.nontrivial = true; }
                prev_view_end = *line + (sd.rem.len() - pf - sf) as isize;
                offsets.push(*offset);
                let core_old = &sd.rem[sd.p..sd.rem.len() - sd.s];
                let core_new = &sd.add[sd.p..sd.add.len() - sd.s];
                let pos = *line + (sd.p - pf) as isize;
                if pos < cursor as isize || pos as usize + core_old.len() > orig.len() {
                    judged = false; // overlapping/out-of-range cores: the statement does not define the result
                    seen.tag("unjudged-core-overlap");
                    break;
                }
                let pos = pos as usize;
                if !(0..core_old.len()).all(|k| &orig[pos + k][..] == core_old[k]) {
                    out.push(Violation::new("C03", "removed-lines-not-at-position", format!("step {} hunk {}: lines removed at {} are not the hunk's removed lines", si, hi, pos)));
                    judged = false;
                    break;
                }
                expect.extend(orig[cursor..pos].iter().cloned());
                expect.extend(core_new.iter().map(|l| l.to_vec()));
                cursor = pos + core_old.len();
            }
        }
        if !judged { continue; }
        offsets.dedup();
        if offsets.len() >= 2 { seen.tag("mixed-offsets"); seen.nontrivial = true; }
        expect.extend(orig[cursor..].iter().cloned());
        if st.after.lines != expect {
            let class = if st.after.lines.len() != expect.len() { "line-count-differs" } else { "content-differs" };
            out.push(Violation::new("C03", class, format!("step {}: result differs from original with the applied hunks' changed lines replaced; expected {} got {}",
                si, jstr(&join(&expect)), jstr(&st.after.bytes()))));
        }
    }
    out
}

/// C04: each undo must restore the snapshot taken before the corresponding apply.
pub fn check_c04(_case: &ApplyCase, ex: &Exec, seen: &mut Seen) -> Vec<Violation> {
    let mut out = Vec::new();
    let any_applied = ex.steps.iter().any(|s| s.hunks.iter().any(|h| matches!(h, HunkObs::Applied { .. })));
    if any_applied { seen.nontrivial = true; }
    if ex.steps.len() >= 2 { seen.tag("stack"); }
    for st in &ex.steps {
        let a = st.hunks.iter().filter(|h| matches!(h, HunkObs::Applied { .. })).count();
        let f = st.hunks.iter().filter(|h| matches!(h, HunkObs::Failed(_))).count();
        if a > 0 && f > 0 { seen.tag("partial"); }
        if st.kind == "Create" { seen.tag("create"); }
        if st.kind == "Delete" { seen.tag("delete"); }
        if st.before.perms != st.after.perms { seen.tag("mode-change"); }
        if st.hunks.iter().any(|h| matches!(h, HunkObs::Applied { fuzz, .. } if *fuzz > 0)) { seen.tag("fuzz>0"); }
    }
    for (i, r) in &ex.rollback {
        let want = &ex.steps[*i].before;
        match r {
            Err(p) => {
                out.push(Violation::new("C04", "rollback-panic", format!("undo of step {} aborted: {}", i, p)).with("panic", &panic_class(p)));
                break;
            }
            Ok(s) => {
                if s.lines != want.lines {
                    out.push(Violation::new("C04", "content-not-restored", format!("undo of step {} ({}): expected {} got {}", i, ex.steps[*i].kind, jstr(&want.bytes()), jstr(&s.bytes())))
                        .with("kind", &ex.steps[*i].kind));
                    break;
                }
                if s.deleted != want.deleted {
                    out.push(Violation::new("C04", "existence-not-restored", format!("undo of step {} ({}): deleted flag {} expected {}", i, ex.steps[*i].kind, s.deleted, want.deleted))
                        .with("kind", &ex.steps[*i].kind));
                    break;
                }
                if s.perms != want.perms {
                    out.push(Violation::new("C04", "permissions-not-restored", format!("undo of step {}: perms {:?} expected {:?}", i, s.perms, want.perms)));
                    break;
                }
            }
        }
    }
    out
}

/// C01 (library layer): the diff applies at the stated place and yields the expected bytes.
pub fn check_c01(case: &ApplyCase, ex: &Exec, seen: &mut Seen) -> Vec<Violation> {
    let mut out = Vec::new();
    let expect = match &case.expect { Some(e) => e, None => return out };
    seen.nontrivial = true;
    let dir = if case.steps.iter().any(|s| s.reverse) { "reverse" } else { "forward" };
    for (si, st) in ex.steps.iter().enumerate() {
        let specs = read_hunks(&case.steps[si].patch);
        for (hi, h) in st.hunks.iter().enumerate() {
            let empty_side = specs.get(hi).map(|s| s.old_count() == 0 || s.new_count() == 0).unwrap_or(false);
            let zero_line = specs.get(hi).map(|s| (s.old_count() == 0 && s.old_start == 0) || (s.new_count() == 0 && s.new_start == 0)).unwrap_or(false);
            if empty_side { seen.tag("empty-side-hunk"); }
            let shape = if empty_side && zero_line { "empty-side-at-line-0" } else if empty_side { "empty-side" } else { "regular" };
            match h {
                HunkObs::Applied { offset, fuzz, .. } => {
                    if *offset != 0 || *fuzz != 0 {
                        out.push(Violation::new("C01", "applied-with-offset-or-fuzz", format!("step {} hunk {}: offset {} fuzz {}", si, hi, offset, fuzz))
                            .with("shape", shape).with("direction", dir));
                        return out;
                    }
                }
                HunkObs::Failed(r) => {
                    out.push(Violation::new("C01", "hunk-failed", format!("step {} hunk {} failed: {}", si, hi, r))
                        .with("reason", r).with("shape", shape).with("direction", dir).with("kind", &st.kind)
                        .with("target-empty", &format!("{}", st.before.lines.is_empty())));
                    return out;
                }
                HunkObs::Skipped => {}
            }
        }
    }
    let last = match ex.steps.last() { Some(l) => l, None => return out };
    match expect {
        Some(bytes) => {
            if last.after.bytes() != *bytes || last.after.deleted {
                out.push(Violation::new("C01", "wrong-result", format!("expected {} got {} (deleted={})", jstr(bytes), jstr(&last.after.bytes()), last.after.deleted))
                    .with("direction", dir));
            }
        }
        None => {
            if !last.after.lines.is_empty() || !last.after.deleted {
                out.push(Violation::new("C01", "wrong-result", format!("expected absent, got {} (deleted={})", jstr(&last.after.bytes()), last.after.deleted))
                    .with("direction", dir));
            }
        }
    }
    out
}

/// C20 (library layer): once a limit suffices, every larger limit gives the same reports and content.
pub fn check_c20(case: &ApplyCase, seen: &mut Seen) -> (Vec<Violation>, usize) {
    let mut out = Vec::new();
    let mut execs = 0;
    // the last three are limits no hunk can use: "unlimited" as a user would write it
    let limits = [0usize, 1, 2, 3, 4, 5, 10, 1000, 1usize << 32, usize::MAX >> 1, usize::MAX];
    let mut base: Option<(usize, Vec<(Vec<HunkObs>, Snap)>)> = None;
    for &f in &limits {
        let ex = match execute(case, Some(f), false) {
            Ok(e) => e,
            Err(ExecError::ApplyPanic { step, msg }) if base.is_some() => {
                out.push(Violation::new("C20", "panics-with-higher-limit", format!("applies completely with limit {} but limit {} panics in step {}: {}", base.as_ref().unwrap().0, f, step, msg)));
                return (out, execs);
            }
            Err(_) => return (out, execs),
        };
        execs += 1;
        let all_ok = ex.steps.iter().all(|s| s.hunks.iter().all(|h| matches!(h, HunkObs::Applied { .. })));
        // creations and deletions report the limit itself as their fuzz; only real placements are compared
        let norm = |s: &StepObs| -> Vec<HunkObs> {
            s.hunks.iter().map(|h| match h {
                HunkObs::Applied { line, offset, lcd, .. } if s.kind != "Modify" => HunkObs::Applied { line: *line, offset: *offset, fuzz: 0, lcd: *lcd },
                other => other.clone(),
            }).collect()
        };
        let cur: Vec<(Vec<HunkObs>, Snap)> = ex.steps.iter().map(|s| (norm(s), s.after.clone())).collect();
        match &base {
            None => {
                if all_ok {
                    if f >= 1 { seen.nontrivial = true; seen.tag("F0>=1"); }
                    else {
                        // F0 = 0: non-trivial when some hunk has context to trim (a higher level could match elsewhere)
                        let trimmable = case.steps.iter().any(|s| read_hunks(&s.patch).iter().any(|h| h.prefix() + h.suffix() > 0));
                        if trimmable { seen.nontrivial = true; seen.tag("F0=0-with-context"); }
                    }
                    base = Some((f, cur));
                }
            }
            Some((f0, b)) => {
                if !all_ok {
                    out.push(Violation::new("C20", "fails-with-higher-limit", format!("applies completely with limit {} but not with {}", f0, f)));
                    break;
                }
                if b.iter().zip(cur.iter()).any(|(x, y)| x.0 != y.0) {
                    out.push(Violation::new("C20", "placement-changes-with-higher-limit", format!("limit {} vs {}: hunk reports differ", f0, f)));
                    break;
                }
                if b.iter().zip(cur.iter()).any(|(x, y)| x.1 != y.1) {
                    out.push(Violation::new("C20", "content-changes-with-higher-limit", format!("limit {} vs {}: content differs", f0, f)));
                    break;
                }
            }
        }
    }
    (out, execs)
}
