//! Small deterministic PRNG (splitmix64).  Every case is a pure function of
//! (seed, generator name, case index) so that a case can be re-created from a
//! progress marker after an abort.

#[derive(Clone)]
pub struct Rng(pub u64);

pub fn mix(mut z: u64) -> u64 {
    z = z.wrapping_add(0x9E3779B97F4A7C15);
    z = (z ^ (z >> 30)).wrapping_mul(0xBF58476D1CE4E5B9);
    z = (z ^ (z >> 27)).wrapping_mul(0x94D049BB133111EB);
    z ^ (z >> 31)
}

pub fn hash_bytes(h: u64, b: &[u8]) -> u64 {
    // FNV-1a folded through mix; good enough for distinct counting.
    let mut x = h ^ 0xcbf29ce484222325;
    for &c in b {
        x ^= c as u64;
        x = x.wrapping_mul(0x100000001b3);
    }
    mix(x ^ (b.len() as u64))
}

impl Rng {
    pub fn for_case(seed: u64, stream: &str, index: u64) -> Rng {
        let s = hash_bytes(mix(seed), stream.as_bytes());
        Rng(mix(s ^ mix(index.wrapping_mul(0xD1B54A32D192ED03))))
    }
    pub fn next(&mut self) -> u64 {
        self.0 = self.0.wrapping_add(0x9E3779B97F4A7C15);
        let mut z = self.0;
        z = (z ^ (z >> 30)).wrapping_mul(0xBF58476D1CE4E5B9);
        z = (z ^ (z >> 27)).wrapping_mul(0x94D049BB133111EB);
        z ^ (z >> 31)
    }
    /// uniform in 0..n (n > 0)
    pub fn below(&mut self, n: u64) -> u64 {
        if n == 0 { return 0; }
        self.next() % n
    }
    pub fn range(&mut self, lo: i64, hi_incl: i64) -> i64 {
        lo + self.below((hi_incl - lo + 1) as u64) as i64
    }
    pub fn chance(&mut self, num: u64, den: u64) -> bool {
        self.below(den) < num
    }
    pub fn pick<'a, T>(&mut self, v: &'a [T]) -> &'a T {
        &v[self.below(v.len() as u64) as usize]
    }
}
