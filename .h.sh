#!/bin/bash
# dev helper: rebuild harness and run a list of "PROP GEN [count]" pairs
cd /verif/harness && CARGO_NET_OFFLINE=true cargo build --release --target-dir /verif/.build/harness 2>&1 | grep -E "^error|^warning: unused" -A8 | head -40
mkdir -p /dev/shm/t && cd /dev/shm/t
R=/verif/.build/harness/release/rqh
for pg in "$@"; do set -- $pg; $R run --prop $1 --gen $2 --seed ${SEED:-1} --count ${3:-20000} --param ${4:-3} --out o.json --hashes h.bin --progress p.prog --keep 2 || echo "EXIT $?"; python3 -c "
import json;d=json.load(open('o.json'))
print('$1 $2', d['evaluations'], 'nontriv',d['nontrivial'],'viol',d['violations'], d['outcomes'])
print('  tags',d['tags'])
for k,v in d['sig_counts'].items(): print('   ',v,k)
"; done
